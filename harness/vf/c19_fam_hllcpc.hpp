// vf/c19_fam_hllcpc.hpp — C19 families: HLL sketch / union, CPC sketch / union.
#ifndef VF_C19_FAM_HLLCPC_HPP
#define VF_C19_FAM_HLLCPC_HPP
#include "c19_engine.hpp"
#include "c19_fam_quantiles.hpp"  // show_bytes
#include <hll.hpp>
#include "hll_model.hpp"
#include <cpc_sketch.hpp>
#include <cpc_union.hpp>
#include <iomanip>

namespace vf19 {

using BA = track_alloc<uint8_t>;
using HllSk = datasketches::hll_sketch_alloc<BA>;
using HllUn = datasketches::hll_union_alloc<BA>;
using CpcSk = datasketches::cpc_sketch_alloc<BA>;
using CpcUn = datasketches::cpc_union_alloc<BA>;

// distinct keys of a batch: the seed selects a window; sizes are chosen by the caller so that LIST, SET and HLL modes occur
inline uint64_t count_key(vf::Rng& r, uint64_t seed) { return (seed % 5) * 1000 + r.below(40 + (seed % 4) * 400); }

inline datasketches::target_hll_type hll_type(uint64_t v) { return static_cast<datasketches::target_hll_type>(v % 3); }
inline void hll_show(const HllSk& sk, std::ostream& os, bool with_bytes) {
  os << std::setprecision(17) << "lg_k=" << int(sk.get_lg_config_k()) << " type=" << int(sk.get_target_type()) << " empty=" << sk.is_empty() << " compact=" << sk.is_compact()
     << " est=" << sk.get_estimate() << " comp=" << sk.get_composite_estimate() << " lb=" << sk.get_lower_bound(2) << " ub=" << sk.get_upper_bound(2)
     << " csize=" << sk.get_compact_serialization_bytes() << " usize=" << sk.get_updatable_serialization_bytes();
  if (with_bytes) {
    auto b1 = [&] { LibScope ls; return sk.serialize_compact(); }();
    auto b2 = [&] { LibScope ls; return sk.serialize_updatable(); }();
    os << " compact:"; show_bytes(os, b1.data(), b1.size());
    os << " updatable:"; show_bytes(os, b2.data(), b2.size());
  }
  os << "\n";
}

struct HllSketchFamily {
  using Obj = HllSk;
  static const char* name() { return "hll-sketch"; }
  static Obj* make(Env& e, uint64_t v, int reg) {
    static const uint8_t lgs[4] = {4, 5, 7, 10};
    return construct<Obj>([&](void* m) { return new (m) Obj(lgs[v & 3], hll_type(e.cfg_a + (v >> 2)), (v & 4) != 0 && (v & 3) < 3, e.alloc<uint8_t>(reg)); });
  }
  static void update(Env&, Obj& sk, uint64_t seed, unsigned n) {
    vf::Rng r(seed);
    // one batch in four starts with one or two keys whose register value is exactly 15: in an HLL_4 array they live in the exception
    // table until the minimum register value moves up, when the table empties and has to be given back (and is built again later)
    if ((seed >> 3) % 4 == 1) {
      static const std::vector<int64_t> k15 = [] { std::vector<int64_t> v; for (auto& kv : vf::high_pool().keys) if (kv.second == 15) v.push_back(kv.first); return v; }();
      for (unsigned j = 0; j < 1 + (seed >> 5) % 2 && !k15.empty(); ++j) { int64_t k = k15[((seed >> 6) + j) % k15.size()]; LibScope ls; sk.update(k); }
    }
    for (unsigned i = 0; i < n; ++i) { uint64_t k = count_key(r, seed); LibScope ls; sk.update(k); }
  }
  static bool merge_ref(Env&, Obj&, const Obj&) { return false; }
  static bool merge_move(Env&, Obj&, Obj&&) { return false; }
  static bool reset(Obj& sk) { LibScope ls; sk.reset(); return true; }
  static Obj* serde(Env& e, const Obj& sk, uint64_t mode, int reg) {
    if (mode & 1) {
      std::stringstream ss(std::ios::in | std::ios::out | std::ios::binary);
      { LibScope ls; if (mode & 4) sk.serialize_updatable(ss); else sk.serialize_compact(ss); }
      return construct<Obj>([&](void* m) { return new (m) Obj(Obj::deserialize(ss, e.alloc<uint8_t>(reg))); });
    }
    if (mode & 4) {
      auto bytes = [&] { LibScope ls; return sk.serialize_updatable(); }();
      return construct<Obj>([&](void* m) { return new (m) Obj(Obj::deserialize(bytes.data(), bytes.size(), e.alloc<uint8_t>(reg))); });
    }
    unsigned header = (mode & 2) ? 8 : 0;
    auto bytes = [&] { LibScope ls; return sk.serialize_compact(header); }();
    return construct<Obj>([&](void* m) { return new (m) Obj(Obj::deserialize(bytes.data() + header, bytes.size() - header, e.alloc<uint8_t>(reg))); });
  }
  static void observe(const Obj& sk, std::ostream& os) { hll_show(sk, os, true); }
  static void canon(const Obj& sk, std::ostream& os) {
    os << std::setprecision(17) << "lg_k=" << int(sk.get_lg_config_k()) << " type=" << int(sk.get_target_type()) << " empty=" << sk.is_empty()
       << " est=" << sk.get_estimate() << " comp=" << sk.get_composite_estimate();
  }
  static void query(Env&, const Obj& sk, uint64_t seed) {
    LibScope ls;
    Obj conv(sk, hll_type(seed));          // copy with conversion of the register width
    (void)conv.get_estimate();
    Obj conv2(std::move(conv));
    if (seed & 8) { ToStringScope ts; (void)sk.to_string(true, (seed & 16) != 0, (seed & 32) != 0, false); }
  }
};

struct HllUnionFamily {
  using Obj = HllUn;
  static const char* name() { return "hll-union"; }
  static Obj* make(Env& e, uint64_t v, int reg) {
    static const uint8_t lgs[4] = {4, 5, 7, 10};
    return construct<Obj>([&](void* m) { return new (m) Obj(lgs[v & 3], e.alloc<uint8_t>(reg)); });
  }
  static void update(Env& e, Obj& u, uint64_t seed, unsigned n) {
    static const uint8_t lgs[4] = {4, 6, 8, 11};
    vf::Rng r(seed);
    if ((seed & 3) == 3) {   // raw items straight into the union
      for (unsigned i = 0; i < n; ++i) { uint64_t k = count_key(r, seed); LibScope ls; u.update(k); }
      return;
    }
    HllSk sk = [&] { LibScope ls; return HllSk(lgs[seed >> 2 & 3], hll_type(seed >> 4), false, e.alloc<uint8_t>(static_cast<int>(seed >> 6 & 1))); }();
    for (unsigned i = 0; i < n; ++i) { uint64_t k = count_key(r, seed); LibScope ls; sk.update(k); }
    LibScope ls;
    if (seed & 1) u.update(sk); else u.update(std::move(sk));
  }
  static bool merge_ref(Env&, Obj&, const Obj&) { return false; }
  static bool merge_move(Env&, Obj&, Obj&&) { return false; }
  static bool reset(Obj& u) { LibScope ls; u.reset(); return true; }
  static Obj* serde(Env&, const Obj&, uint64_t, int) { return nullptr; }
  static void observe(const Obj& u, std::ostream& os) {
    os << std::setprecision(17) << "lg_k=" << int(u.get_lg_config_k()) << " type=" << int(u.get_target_type()) << " empty=" << u.is_empty()
       << " est=" << u.get_estimate() << " comp=" << u.get_composite_estimate() << " lb=" << u.get_lower_bound(1) << " ub=" << u.get_upper_bound(1) << "\n";
    for (int t = 0; t < 3; ++t) { auto r = [&] { LibScope ls; return u.get_result(hll_type(static_cast<uint64_t>(t))); }(); hll_show(r, os, true); }
  }
  static void canon(const Obj&, std::ostream&) {}
  static void query(Env&, const Obj& u, uint64_t seed) { LibScope ls; auto r = u.get_result(hll_type(seed)); auto r2 = r; (void)r2.get_estimate(); }
};

inline void cpc_show(const CpcSk& sk, std::ostream& os) {
  os << std::setprecision(17) << "lg_k=" << int(sk.get_lg_k()) << " empty=" << sk.is_empty() << " est=" << sk.get_estimate() << " lb=" << sk.get_lower_bound(2) << " ub=" << sk.get_upper_bound(2)
     << " valid=" << [&] { LibScope ls; return sk.validate(); }() << ' ';
  auto b = [&] { LibScope ls; return sk.serialize(); }();
  show_bytes(os, b.data(), b.size());
  os << "\n";
}

struct CpcSketchFamily {
  using Obj = CpcSk;
  static const char* name() { return "cpc-sketch"; }
  static Obj* make(Env& e, uint64_t v, int reg) {
    static const uint8_t lgs[4] = {4, 5, 7, 11};
    datasketches::cpc_init<BA>();
    return construct<Obj>([&](void* m) { return new (m) Obj(lgs[v & 3], datasketches::DEFAULT_SEED, e.alloc<uint8_t>(reg)); });
  }
  static void update(Env&, Obj& sk, uint64_t seed, unsigned n) {
    vf::Rng r(seed);
    for (unsigned i = 0; i < n; ++i) { uint64_t k = count_key(r, seed); LibScope ls; sk.update(k); }
  }
  static bool merge_ref(Env&, Obj&, const Obj&) { return false; }
  static bool merge_move(Env&, Obj&, Obj&&) { return false; }
  static bool reset(Obj&) { return false; }
  static Obj* serde(Env& e, const Obj& sk, uint64_t mode, int reg) {
    if (mode & 1) {
      std::stringstream ss(std::ios::in | std::ios::out | std::ios::binary);
      { LibScope ls; sk.serialize(ss); }
      return construct<Obj>([&](void* m) { return new (m) Obj(Obj::deserialize(ss, datasketches::DEFAULT_SEED, e.alloc<uint8_t>(reg))); });
    }
    unsigned header = (mode & 2) ? 8 : 0;
    auto bytes = [&] { LibScope ls; return sk.serialize(header); }();
    return construct<Obj>([&](void* m) { return new (m) Obj(Obj::deserialize(bytes.data() + header, bytes.size() - header, datasketches::DEFAULT_SEED, e.alloc<uint8_t>(reg))); });
  }
  static void observe(const Obj& sk, std::ostream& os) { cpc_show(sk, os); }
  static void canon(const Obj& sk, std::ostream& os) { cpc_show(sk, os); }
  static void query(Env&, const Obj& sk, uint64_t seed) { LibScope ls; if (seed & 1) { ToStringScope ts; (void)sk.to_string(); } (void)sk.get_lower_bound(1 + seed % 3); }
};

struct CpcUnionFamily {
  using Obj = CpcUn;
  static const char* name() { return "cpc-union"; }
  static Obj* make(Env& e, uint64_t v, int reg) {
    static const uint8_t lgs[4] = {4, 5, 7, 11};
    datasketches::cpc_init<BA>();
    return construct<Obj>([&](void* m) { return new (m) Obj(lgs[v & 3], datasketches::DEFAULT_SEED, e.alloc<uint8_t>(reg)); });
  }
  static void update(Env& e, Obj& u, uint64_t seed, unsigned n) {
    static const uint8_t lgs[4] = {4, 6, 8, 12};
    vf::Rng r(seed);
    CpcSk sk = [&] { LibScope ls; return CpcSk(lgs[seed >> 2 & 3], datasketches::DEFAULT_SEED, e.alloc<uint8_t>(static_cast<int>(seed >> 6 & 1))); }();
    unsigned nn = (seed & 16) ? n * 6 : n;   // larger inputs reach the windowed flavours
    for (unsigned i = 0; i < nn; ++i) { uint64_t k = (seed & 16) ? r.below(1 << 20) : count_key(r, seed); LibScope ls; sk.update(k); }
    LibScope ls;
    if (seed & 1) u.update(sk); else u.update(std::move(sk));
  }
  static bool merge_ref(Env&, Obj&, const Obj&) { return false; }
  static bool merge_move(Env&, Obj&, Obj&&) { return false; }
  static bool reset(Obj&) { return false; }
  static Obj* serde(Env&, const Obj&, uint64_t, int) { return nullptr; }
  static void observe(const Obj& u, std::ostream& os) { auto r = [&] { LibScope ls; return u.get_result(); }(); cpc_show(r, os); }
  static void canon(const Obj&, std::ostream&) {}
  static void query(Env&, const Obj& u, uint64_t) { LibScope ls; auto r = u.get_result(); auto r2 = r; auto r3 = std::move(r); (void)r2.get_estimate(); (void)r3.get_estimate(); }
};

}  // namespace vf19
#endif
