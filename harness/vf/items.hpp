// vf/items.hpp — decoding of (type code, raw 64-bit) pairs from a Case into typed update() calls, together with
// the documented canonical byte form used by the reference hash.
#ifndef VF_ITEMS_HPP
#define VF_ITEMS_HPP
#include <cstdint>
#include <cstring>
#include <limits>
#include <string>
#include "ref_hash.hpp"
#include "core.hpp"

namespace vf {

enum ItemType { T_U64 = 0, T_I64, T_U32, T_I32, T_U16, T_I16, T_U8, T_I8, T_F64, T_F32, T_STR, T_BYTES, T_NTYPES };
inline const char* item_type_name(int t) {
  static const char* n[] = {"u64", "i64", "u32", "i32", "u16", "i16", "u8", "i8", "f64", "f32", "str", "bytes"};
  return (t >= 0 && t < T_NTYPES) ? n[t] : "?";
}

struct Item { int type; uint64_t raw; };

inline double item_double(uint64_t raw) {
  static const uint64_t edge_bits[] = {
      0x0000000000000000ull,  // +0.0
      0x8000000000000000ull,  // -0.0
      0x7ff8000000000000ull,  // canonical NaN
      0x7ff0000000000001ull,  // signalling NaN, other payload
      0xfff8000000000000ull,  // negative NaN
      0x7ff0000000000000ull,  // +inf
      0xfff0000000000000ull,  // -inf
      0x0000000000000001ull,  // min denormal
      0x3ff0000000000000ull,  // 1.0
      0xbff0000000000000ull,  // -1.0
      0x7fefffffffffffffull,  // max
      0x7fffffffffffffffull,  // NaN all ones
  };
  const size_t ne = sizeof(edge_bits) / sizeof(edge_bits[0]);
  uint64_t bits;
  if (raw < ne) bits = edge_bits[raw];
  else if (raw < 4096) return static_cast<double>(static_cast<int64_t>(raw) - 2048) * 0.25;  // small "ordinary" numbers, shared with float
  else bits = mix64(raw);
  double d; std::memcpy(&d, &bits, 8); return d;
}
inline float item_float(uint64_t raw) {
  static const uint32_t edge_bits[] = {0x00000000u, 0x80000000u, 0x7fc00000u, 0x7f800001u, 0xffc00000u, 0x7f800000u,
                                       0xff800000u, 0x00000001u, 0x3f800000u, 0xbf800000u, 0x7f7fffffu, 0x7fffffffu};
  const size_t ne = sizeof(edge_bits) / sizeof(edge_bits[0]);
  uint32_t bits;
  if (raw < ne) bits = edge_bits[raw];
  else if (raw < 4096) return static_cast<float>(static_cast<int64_t>(raw) - 2048) * 0.25f;
  else bits = static_cast<uint32_t>(mix64(raw));
  float f; std::memcpy(&f, &bits, 4); return f;
}
inline std::string item_string(uint64_t raw) {
  if (raw == 0) return std::string();
  // length 1..48 so that every murmur/xxhash tail length and the 16/32-byte block paths occur
  std::string s = std::to_string(raw);
  size_t len = 1 + (mix64(raw) % 48);
  uint64_t r = raw;
  while (s.size() < len) { r = mix64(r); s.push_back(static_cast<char>('a' + (r % 26))); }
  if (s.size() > len && len >= 20) s.resize(len);  // keep the decimal prefix intact (distinctness) for short ones
  // strings are byte strings: one in eight starts with a NUL byte, one in eight carries a NUL and a 0xFF byte inside (still distinct per raw:
  // the decimal prefix is kept)
  if ((raw & 7) == 3) s.insert(s.begin(), '\0');
  else if ((raw & 7) == 5) s.insert(s.size() / 2, std::string("\0\xff", 2));
  return s;
}
inline std::string item_bytes(uint64_t raw) {
  size_t len = (mix64(raw ^ 0x5bd1e995) % 41);  // 0..40, zero length allowed
  std::string s(8, '\0');
  for (int i = 0; i < 8; ++i) s[i] = static_cast<char>(raw >> (8 * i));
  uint64_t r = raw;
  while (s.size() < 8 + len) { r = mix64(r); s.push_back(static_cast<char>(r & 0xff)); }
  return s;
}

// feeds one item to anything with the standard set of update overloads
template <typename Sk>
void feed(Sk& sk, const Item& it) {
  switch (it.type) {
    case T_U64: sk.update(static_cast<uint64_t>(it.raw)); break;
    case T_I64: sk.update(static_cast<int64_t>(it.raw)); break;
    case T_U32: sk.update(static_cast<uint32_t>(it.raw)); break;
    case T_I32: sk.update(static_cast<int32_t>(static_cast<uint32_t>(it.raw))); break;
    case T_U16: sk.update(static_cast<uint16_t>(it.raw)); break;
    case T_I16: sk.update(static_cast<int16_t>(static_cast<uint16_t>(it.raw))); break;
    case T_U8: sk.update(static_cast<uint8_t>(it.raw)); break;
    case T_I8: sk.update(static_cast<int8_t>(static_cast<uint8_t>(it.raw))); break;
    case T_F64: sk.update(item_double(it.raw)); break;
    case T_F32: sk.update(item_float(it.raw)); break;
    case T_STR: sk.update(item_string(it.raw)); break;
    default: { std::string b = item_bytes(it.raw); sk.update(static_cast<const void*>(b.data()), b.size()); }
  }
}

// canonical bytes by the documented convention; returns false when the item is documented as ignored (empty string)
inline bool canonical_bytes(const Item& it, std::string& out) {
  auto put64 = [&](int64_t v) { out.assign(8, '\0'); for (int i = 0; i < 8; ++i) out[i] = static_cast<char>(static_cast<uint64_t>(v) >> (8 * i)); };
  switch (it.type) {
    case T_U64: case T_I64: put64(static_cast<int64_t>(it.raw)); return true;
    case T_U32: case T_I32: put64(static_cast<int64_t>(static_cast<int32_t>(static_cast<uint32_t>(it.raw)))); return true;
    case T_U16: case T_I16: put64(static_cast<int64_t>(static_cast<int16_t>(static_cast<uint16_t>(it.raw)))); return true;
    case T_U8: case T_I8: put64(static_cast<int64_t>(static_cast<int8_t>(static_cast<uint8_t>(it.raw)))); return true;
    case T_F64: put64(ref_canonical_double_bits(item_double(it.raw))); return true;
    case T_F32: put64(ref_canonical_double_bits(static_cast<double>(item_float(it.raw)))); return true;
    case T_STR: out = item_string(it.raw); return !out.empty();
    default: out = item_bytes(it.raw); return true;
  }
}
inline bool ref_item_hash(const Item& it, uint64_t seed, H128& h) {
  std::string b;
  if (!canonical_bytes(it, b)) return false;
  h = ref_murmur3_128(b.data(), b.size(), seed);
  return true;
}

// generator of "interesting" raw values: indices into the edge tables, integer boundary values, and random
inline rc::Gen<int64_t> raw_gen() {
  return rc::gen::mapcat(rc::gen::resize(1000, rc::gen::inRange(0, 10)), [](int c) -> rc::Gen<int64_t> {
    if (c < 3) return range(0, 12);
    if (c < 5) return rc::gen::elementOf(std::vector<int64_t>{
        -1, 0x7f, 0x80, 0xff, 0x100, 0x7fff, 0x8000, 0xffff, 0x10000, 0x7fffffffll, 0x80000000ll, 0xffffffffll, 0x100000000ll,
        std::numeric_limits<int64_t>::max(), std::numeric_limits<int64_t>::min(), -128, -129, -32768, -32769, -2147483648ll, -2147483649ll});
    if (c < 7) return range(0, 4095);
    return rc::gen::resize(1000, rc::gen::arbitrary<int64_t>());
  });
}

}  // namespace vf
#endif
