// C07 — Quantile sketches (KLL, REQ, classic) conserve weight, keep exact extremes and answer coherently.
//
// A case = family x item type/comparator x per-slot k (equal or unequal) x REQ accuracy mode x an op history over NS live
// sketches: bulk updates in generated patterns, single edge-value updates (NaN, inf, -0.0, boundary integers, empty
// string), merges (const lvalue / lvalue / rvalue, any operand state), copies / assignments, re-creation with another
// k, query batches. Next to every sketch runs the exact multiset of the accepted items (kept sorted by the sketch's
// comparator). After every op the touched sketches are compared with the model:
//   n, emptiness, min/max (comparator-equivalence), iteration (pre-increment, step guard) == num_retained entries,
//   every retained item is a stream item, weights are powers of two and sum to n, iteration == sorted view as a
//   multiset of (item, weight), the family's stated space bound, sorted view ordered / strictly increasing cumulative
//   weight ending in n, rank monotone / inclusive >= exclusive / in [0,1] / equal to the weight recomputed from the
//   view, quantile monotone / a retained item / between min and max / defining inequalities against get_rank,
//   CDF == ranks + 1, PMF == differences and sums to 1, documented refusals (empty sketch, rank outside [0,1],
//   unsorted / duplicate / NaN split points, REQ HRA<->LRA merge), and while !is_estimation_mode(): retained multiset
//   == stream multiset, every rank and quantile equals the true value.
#include "vf/core.hpp"
#include "vf/items.hpp"
#include <kll_sketch.hpp>
#include <req_sketch.hpp>
#include <quantiles_sketch.hpp>
#include "vf/coin.hpp"

#include <iomanip>
#include <limits>
#include <memory>

// Build-time note: the 12 instantiations of the checker (3 families x 4 item types) contain ~100 checks each. With the
// stock VF_CHECK every check site inlines an ostringstream (constructor, inserters, cleanup pads) into two huge functions
// and the TU takes ~110 s to compile under ASan. The local definition below has the same contract (counts the check,
// builds the same message, ends in vf::fail -> vf::Failure) but keeps the message code in a cold out-of-line lambda.
namespace {
uint64_t c07_nchecks = 0;   // flushed into vf::count("checks") once per case
template <typename L> [[noreturn]] __attribute__((noinline, cold)) void c07_raise(const char* id, const char* cond, int line, L&& l) {
  std::ostringstream os;
  l(os);
  os << "  [" << cond << " @" << __FILE__ << ":" << line << "]";
  ::vf::fail(id, os.str());
}
struct ChecksFlush { ~ChecksFlush() { ::vf::count("checks", c07_nchecks); c07_nchecks = 0; } };
}  // namespace
#undef VF_CHECK
#define VF_CHECK(cond, id, msgexpr)                                                                         \
  do {                                                                                                      \
    ++c07_nchecks;                                                                                          \
    if (!(cond)) c07_raise(id, #cond, __LINE__, [&](std::ostream& vf_os_) { vf_os_ << msgexpr; });         \
  } while (0)

using namespace datasketches;
using vf::Case; using vf::Op;

namespace {

const int NS = 4;                       // live sketches per case
const size_t MAX_MODEL = 400000;        // cap of one model multiset (memory / time)

enum { F_KLL = 0, F_REQ = 1, F_CLS = 2 };
const char* fam_name(int f) { return f == F_KLL ? "kll" : f == F_REQ ? "req" : "classic"; }

// ------------------------------------------------------------------ item types
struct LenLex {  // custom stateless comparator: shorter strings first, then lexicographic
  bool operator()(const std::string& a, const std::string& b) const { return a.size() != b.size() ? a.size() < b.size() : a < b; }
};

// comparator WITH state: the instance given to the sketch orders descending, a default-constructed one ascending - any place that
// compares with C() instead of the instance it was given mixes two orders
struct DirCmp {
  bool desc = false;
  DirCmp() = default;
  explicit DirCmp(bool d): desc(d) {}
  bool operator()(int64_t a, int64_t b) const { return desc ? b < a : a < b; }
};
template <typename C> struct CompInstance { static C make() { return C(); } static const char* name() { return "stateless"; } };
template <> struct CompInstance<DirCmp> { static DirCmp make() { return DirCmp(true); } static const char* name() { return "stateful-descending-instance"; } };

template <typename T> struct ItemOps;
template <> struct ItemOps<float> {
  static const bool floating = true;
  static const char* name() { return "float"; }
  static float from_index(int64_t i) { return static_cast<float>(i) * 0.25f - 64.0f; }  // exact for |i| < 2^22
  static float from_raw(uint64_t raw) { return vf::item_float(raw); }
  static bool is_nan(float v) { return std::isnan(v); }
  static float nan() { return std::numeric_limits<float>::quiet_NaN(); }
};
template <> struct ItemOps<double> {
  static const bool floating = true;
  static const char* name() { return "double"; }
  static double from_index(int64_t i) { return static_cast<double>(i) * 0.5 - 1000.0; }
  static double from_raw(uint64_t raw) { return vf::item_double(raw); }
  static bool is_nan(double v) { return std::isnan(v); }
  static double nan() { return std::numeric_limits<double>::quiet_NaN(); }
};
template <> struct ItemOps<int64_t> {
  static const bool floating = false;
  static const char* name() { return "int64"; }
  static int64_t from_index(int64_t i) { return i * 3 - 5000; }
  static int64_t from_raw(uint64_t raw) { return static_cast<int64_t>(raw); }
  static bool is_nan(int64_t) { return false; }
  static int64_t nan() { return 0; }
};
template <> struct ItemOps<std::string> {
  static const bool floating = false;
  static const char* name() { return "string"; }
  static std::string from_index(int64_t i) { return std::to_string(i < 0 ? -i : i); }
  static std::string from_raw(uint64_t raw) { return vf::item_string(raw); }
  static bool is_nan(const std::string&) { return false; }
  static std::string nan() { return std::string(); }
};

template <typename T> std::string show(const T& v) { std::ostringstream os; os << std::setprecision(17) << v; return os.str(); }
template <> std::string show<std::string>(const std::string& v) { return "'" + v + "'"; }

// ------------------------------------------------------------------ families
template <int F, typename T, typename C> struct SkOf;
template <typename T, typename C> struct SkOf<F_KLL, T, C> { using type = kll_sketch<T, C>; static type make(uint16_t k, bool, const C& c) { return type(k, c); } };
template <typename T, typename C> struct SkOf<F_REQ, T, C> { using type = req_sketch<T, C>; static type make(uint16_t k, bool hra, const C& c) { return type(k, hra, c); } };
template <typename T, typename C> struct SkOf<F_CLS, T, C> { using type = quantiles_sketch<T, C>; static type make(uint16_t k, bool, const C& c) { return type(k, c); } };

// legal k values per family (KLL 8..65535, REQ even 4..1024, classic powers of two 2..32768); index from the case
uint16_t k_from(int fam, uint64_t sel) {
  static const uint16_t kll[16] = {8, 8, 9, 10, 11, 12, 13, 16, 16, 20, 25, 32, 50, 64, 100, 200};
  static const uint16_t req[16] = {4, 4, 4, 6, 6, 8, 8, 10, 12, 12, 16, 24, 50, 100, 300, 1024};
  static const uint16_t cls[16] = {2, 2, 2, 4, 4, 4, 8, 8, 16, 16, 32, 32, 64, 128, 256, 1024};
  const uint16_t* t = fam == F_KLL ? kll : fam == F_REQ ? req : cls;
  return t[sel & 15];
}

// KLL: independent statement of the documented capacity rule: level capacity = max(m, round(k * (2/3)^depth)),
// total capacity for the largest number of levels a stream of n items can need (1 + floor(log2 n)).
uint64_t kll_capacity_for_levels(uint32_t k, int levels);
uint64_t kll_capacity_bound(uint32_t k, uint64_t n) {
  int levels = 1;
  while (levels < 60 && (n >> levels) != 0) ++levels;  // 1 + floor(log2 n) for n >= 1
  return kll_capacity_for_levels(k, levels);
}
// the same rule for a given number of levels (the sketch reports its number of levels in to_string)
uint64_t kll_capacity_for_levels(uint32_t k, int levels) {
  uint64_t total = 0;
  for (int depth = 0; depth < levels; ++depth) {
    unsigned __int128 num = static_cast<unsigned __int128>(2 * k) << depth;
    unsigned __int128 den = 1;
    for (int i = 0; i < depth; ++i) den *= 3;
    uint64_t cap = static_cast<uint64_t>((num / den + 1) >> 1);
    total += std::max<uint64_t>(8, cap);
  }
  return total;
}

template <typename E, typename Fn> bool throws(Fn&& f) {
  try { f(); } catch (const E&) { return true; } catch (const std::exception&) { return false; }
  return false;
}

struct Deferred { std::string id, key, msg; };

// ------------------------------------------------------------------ the property, generic in family / item type / comparator
template <int F, typename T, typename C>
struct Runner {
  using Sk = typename SkOf<F, T, C>::type;
  using IO = ItemOps<T>;
  struct Entry { T item; uint64_t w; };

  C comp = CompInstance<C>::make();
  std::vector<Sk> sk;
  std::vector<std::vector<T>> model;   // per slot: accepted items, always sorted by comp
  std::vector<uint16_t> kreq;          // requested k per slot
  std::vector<bool> hra;               // REQ mode per slot
  std::vector<Deferred> deferred;      // keyed findings, raised after everything else was checked
  // coverage
  bool merged_est = false, merged_unequal_k = false, merged_rvalue = false, merged_empty_src = false, merged_into_empty = false,
       merged_exact = false, nan_ignored = false, exact_queries = false, est_queries = false, l0_empty = false, deep = false,
       hra_refused = false, dup_heavy = false, copied = false;
  uint64_t max_n = 0;

  bool equiv(const T& a, const T& b) const { return !comp(a, b) && !comp(b, a); }

  void defer(const std::string& id, const std::string& key, const std::string& msg) {
    for (const auto& d : deferred) if (d.key == key) return;
    deferred.push_back({id, key, msg});
  }

  // ---------------------------------------------------------------- model
  void model_add(int s, std::vector<T>& chunk) {
    std::sort(chunk.begin(), chunk.end(), comp);
    std::vector<T> out;
    out.reserve(model[s].size() + chunk.size());
    std::merge(model[s].begin(), model[s].end(), chunk.begin(), chunk.end(), std::back_inserter(out), comp);
    model[s].swap(out);
  }
  uint64_t count_lt(const std::vector<T>& S, const T& x) const { return static_cast<uint64_t>(std::lower_bound(S.begin(), S.end(), x, comp) - S.begin()); }
  uint64_t count_le(const std::vector<T>& S, const T& x) const { return static_cast<uint64_t>(std::upper_bound(S.begin(), S.end(), x, comp) - S.begin()); }

  // ---------------------------------------------------------------- updates
  void feed(int s, const std::vector<T>& items, bool rvalue) {
    std::vector<T> accepted;
    accepted.reserve(items.size());
    for (const T& v : items) {
      if (rvalue) { T tmp(v); sk[s].update(std::move(tmp)); } else sk[s].update(v);
      if (IO::is_nan(v)) nan_ignored = true; else accepted.push_back(v);
    }
    model_add(s, accepted);
  }

  std::vector<T> pattern(uint64_t n, int pat, uint64_t seed) {
    vf::Rng r(vf::mix64(seed ^ 0xC07));
    std::vector<T> v;
    v.reserve(n);
    int64_t base = static_cast<int64_t>(r.below(4096));
    uint64_t R;
    switch (r.below(4)) { case 0: R = 16; break; case 1: R = n + 1; break; case 2: R = 4 * n + 1; break; default: R = 1u << 20; }
    int64_t cval = static_cast<int64_t>(r.below(1u << 20));
    uint64_t few = 2 + r.below(6);
    for (uint64_t i = 0; i < n; ++i) {
      int64_t idx;
      switch (pat & 7) {
        case 0: idx = base + static_cast<int64_t>(i); break;                          // sorted
        case 1: idx = base + static_cast<int64_t>(n - 1 - i); break;                  // reversed
        case 2: idx = static_cast<int64_t>(r.below(R)); break;                        // random
        case 3: idx = cval; break;                                                    // constant
        case 4: idx = base + static_cast<int64_t>(r.below(few)); break;               // few distinct values
        case 5: idx = (i & 1) ? base + static_cast<int64_t>(2 * n - i) : base + static_cast<int64_t>(i); break;  // zigzag
        case 6: idx = static_cast<int64_t>(r.below(R)); break;                        // random with NaN (floating types)
        default: idx = base + static_cast<int64_t>(i / 16); break;                    // sorted runs of duplicates
      }
      if ((pat & 7) == 6 && IO::floating && r.below(6) == 0) v.push_back(IO::nan());
      else v.push_back(IO::from_index(idx));
    }
    if ((pat & 7) == 3 || (pat & 7) == 4 || (pat & 7) == 7) { if (n >= 16) dup_heavy = true; }
    return v;
  }

  // ---------------------------------------------------------------- structural check of one sketch against its model
  // fills V with the sorted view as (item, individual weight) entries
  void check_structure(int s, const char* after, std::vector<Entry>& V) {
    const Sk& q = sk[s];
    const std::vector<T>& S = model[s];
    const uint64_t n = q.get_n();
    const std::string ctx = std::string(fam_name(F)) + "<" + IO::name() + "> slot " + std::to_string(s) + " k=" + std::to_string(q.get_k()) + " after " + after + ": ";
    VF_CHECK(n == S.size(), "n", ctx << "get_n " << n << " accepted items " << S.size());
    VF_CHECK(q.is_empty() == (n == 0), "is-empty", ctx << "is_empty " << q.is_empty() << " n " << n);
    const uint32_t retained = q.get_num_retained();
    max_n = std::max(max_n, n);
    V.clear();
    if (n == 0) {
      VF_CHECK(retained == 0, "empty-retained", ctx << "empty sketch retains " << retained);
      VF_CHECK(!q.is_estimation_mode(), "empty-estimation", ctx << "empty sketch in estimation mode");
      VF_CHECK(throws<std::runtime_error>([&] { (void)q.get_min_item(); }), "empty-refused", ctx << "get_min_item on empty sketch did not throw runtime_error");
      VF_CHECK(throws<std::runtime_error>([&] { (void)q.get_max_item(); }), "empty-refused", ctx << "get_max_item on empty sketch did not throw runtime_error");
      T x = IO::from_index(7);
      VF_CHECK(throws<std::runtime_error>([&] { (void)q.get_rank(x, true); }), "empty-refused", ctx << "get_rank on empty sketch did not throw runtime_error");
      VF_CHECK(throws<std::runtime_error>([&] { (void)q.get_rank(x, false); }), "empty-refused", ctx << "get_rank on empty sketch did not throw runtime_error");
      VF_CHECK(throws<std::runtime_error>([&] { (void)q.get_quantile(0.5, true); }), "empty-refused", ctx << "get_quantile on empty sketch did not throw runtime_error");
      VF_CHECK(throws<std::runtime_error>([&] { (void)q.get_quantile(0.5, false); }), "empty-refused", ctx << "get_quantile on empty sketch did not throw runtime_error");
      VF_CHECK(throws<std::runtime_error>([&] { (void)q.get_CDF(&x, 1, true); }), "empty-refused", ctx << "get_CDF on empty sketch did not throw runtime_error");
      VF_CHECK(throws<std::runtime_error>([&] { (void)q.get_PMF(&x, 1, false); }), "empty-refused", ctx << "get_PMF on empty sketch did not throw runtime_error");
      auto view = q.get_sorted_view();
      VF_CHECK(view.size() == 0 && view.begin() == view.end(), "empty-view", ctx << "sorted view of an empty sketch has " << view.size() << " entries");
      // iterating an empty sketch must yield nothing: begin() == end(). Not iterated when they differ (it would read
      // outside the buffer); recorded and raised at the end of the case so everything else is still checked.
      ++c07_nchecks;
      if (!(q.begin() == q.end())) {
        if (F == F_REQ) defer("iter-empty", "C07|req|iteration|empty-sketch-begin!=end", ctx + "begin() != end() on an empty sketch (0 retained items, iteration would yield entries)");
        else vf::fail("iter-empty", ctx + "begin() != end() on an empty sketch");
      }
      return;
    }
    // extremes
    {
      T mn = q.get_min_item();
      T mx = q.get_max_item();
      VF_CHECK(equiv(mn, S.front()), "min", ctx << "get_min_item " << show(mn) << " stream minimum " << show(S.front()));
      VF_CHECK(equiv(mx, S.back()), "max", ctx << "get_max_item " << show(mx) << " stream maximum " << show(S.back()));
    }
    // sorted view
    {
      auto view = q.get_sorted_view();
      VF_CHECK(view.size() == retained, "view-size", ctx << "sorted view size " << view.size() << " num_retained " << retained);
      uint64_t prev_cum = 0;
      size_t steps = 0;
      for (auto it = view.begin(); it != view.end(); ++it) {
        VF_CHECK(++steps <= static_cast<size_t>(retained), "view-size", ctx << "sorted view iterates more than " << retained << " entries");
        const auto e = *it;
        const uint64_t cum = e.second;
        VF_CHECK(cum > prev_cum, "view-cumulative", ctx << "cumulative weight not increasing at entry " << V.size() << ": " << prev_cum << " -> " << cum);
        VF_CHECK(it.get_weight() == cum - prev_cum, "view-weight", ctx << "get_weight " << it.get_weight() << " != cumulative difference " << (cum - prev_cum));
        VF_CHECK(it.get_cumulative_weight(true) == cum && it.get_cumulative_weight(false) == prev_cum, "view-weight", ctx << "get_cumulative_weight inconsistent at entry " << V.size());
        V.push_back(Entry{T(e.first), cum - prev_cum});
        prev_cum = cum;
      }
      VF_CHECK(V.size() == retained, "view-size", ctx << "sorted view iterated " << V.size() << " entries, num_retained " << retained);
      VF_CHECK(prev_cum == n, "view-total", ctx << "sorted view total weight " << prev_cum << " n " << n);
      for (size_t i = 0; i < V.size(); ++i) {
        VF_CHECK(i == 0 || !comp(V[i].item, V[i - 1].item), "view-order", ctx << "sorted view out of order at " << i << ": " << show(V[i - 1].item) << " then " << show(V[i].item));
        VF_CHECK((V[i].w & (V[i].w - 1)) == 0, "view-weight-pow2", ctx << "weight " << V[i].w << " is not a power of two");
        VF_CHECK(std::binary_search(S.begin(), S.end(), V[i].item, comp), "retained-not-in-stream", ctx << "retained item " << show(V[i].item) << " was never accepted");
      }
    }
    bool has_w1 = false; uint64_t maxw = 0;
    for (const Entry& e : V) { if (e.w == 1) has_w1 = true; maxw = std::max(maxw, e.w); }
    if (maxw >= 16) deep = true;
    // iteration
    {
      std::vector<Entry> I;
      I.reserve(retained);
      uint64_t sumw = 0;
      bool pow2 = true;
      for (auto it = q.begin(); it != q.end(); ++it) {
        VF_CHECK(I.size() < static_cast<size_t>(retained), "iter-count", ctx << "iteration yields more than num_retained = " << retained << " entries");
        const auto e = *it;
        I.push_back(Entry{T(e.first), e.second});
        sumw += e.second;
        if ((e.second & (e.second - 1)) != 0 || e.second == 0) pow2 = false;
      }
      VF_CHECK(I.size() == retained, "iter-count", ctx << "iteration yields " << I.size() << " entries, num_retained " << retained);
      auto by_item_weight = [&](const Entry& a, const Entry& b) { if (comp(a.item, b.item)) return true; if (comp(b.item, a.item)) return false; return a.w < b.w; };
      std::vector<Entry> Vs(V);
      std::sort(I.begin(), I.end(), by_item_weight);
      std::sort(Vs.begin(), Vs.end(), by_item_weight);
      for (size_t i = 0; i < I.size(); ++i)
        VF_CHECK(equiv(I[i].item, Vs[i].item), "iter-items", ctx << "iterated items differ from the sorted view at sorted position " << i << ": " << show(I[i].item) << " vs " << show(Vs[i].item));
      // KLL: the iterator is known to report weight 1 for everything when level 0 is empty (possible only after a merge);
      // that exact situation is keyed and raised at the end of the case, every other weight mismatch fails right here.
      const bool kll_level0_empty = F == F_KLL && !has_w1;
      if (kll_level0_empty) l0_empty = true;
      bool weights_ok = pow2 && sumw == n;
      for (size_t i = 0; weights_ok && i < I.size(); ++i) if (I[i].w != Vs[i].w) weights_ok = false;
      ++c07_nchecks;
      if (!weights_ok) {
        std::ostringstream os;
        os << ctx << "iterator weights: sum " << sumw << " n " << n << " (retained " << retained << ", powers of two " << pow2 << ", largest view weight " << maxw << ")";
        if (kll_level0_empty) defer("iter-weights", "C07|kll|iterator-weights|level0-empty-after-merge", os.str() + " with level 0 empty");
        else vf::fail("iter-weights", os.str());
      }
    }
    // space bound
    if (F == F_CLS) {
      const uint64_t k = q.get_k();
      uint64_t bits = n / (2 * k), levels = 0;
      for (; bits; bits &= bits - 1) ++levels;
      VF_CHECK(retained == n % (2 * k) + k * levels, "space-classic", ctx << "retained " << retained << " != bb " << n % (2 * k) << " + k * " << levels << " valid levels");
    } else if (F == F_KLL) {
      const uint64_t bound = kll_capacity_bound(q.get_k(), n);
      VF_CHECK(retained <= bound, "space-kll", ctx << "retained " << retained << " > total capacity " << bound << " for k and n=" << n);
      // sharper: the capacity of the number of levels the sketch says it has (levels are only added when the sketch is full)
      const std::string str = q.to_string();
      const size_t lp = str.find("Levels         : ");
      VF_CHECK(lp != std::string::npos, "space-kll", ctx << "to_string has no levels line");
      const int levels = static_cast<int>(std::strtol(str.c_str() + lp + 17, nullptr, 10));
      const uint64_t cap = kll_capacity_for_levels(q.get_k(), levels);
      VF_CHECK(levels >= 1 && levels <= 61 && retained <= cap, "space-kll-levels", ctx << "retained " << retained << " > " << cap << ", the total capacity of a k = " << q.get_k() << " sketch with the reported " << levels << " levels");
    } else {
      const std::string str = q.to_string();
      const size_t p = str.find("Capacity items : ");
      VF_CHECK(p != std::string::npos, "space-req", ctx << "to_string has no capacity line");
      const uint64_t cap = std::strtoull(str.c_str() + p + 17, nullptr, 10);
      VF_CHECK(retained < cap, "space-req", ctx << "retained " << retained << " >= nominal capacity " << cap << " reported by the sketch");
    }
    // exact mode: nothing was dropped
    if (!q.is_estimation_mode()) {
      VF_CHECK(retained == n, "exact-retained", ctx << "not in estimation mode but retained " << retained << " != n " << n);
      for (size_t i = 0; i < V.size(); ++i) {
        VF_CHECK(V[i].w == 1, "exact-weight", ctx << "not in estimation mode but weight " << V[i].w);
        VF_CHECK(equiv(V[i].item, S[i]), "exact-items", ctx << "not in estimation mode but retained item " << i << " = " << show(V[i].item) << " stream has " << show(S[i]));
      }
    }
  }

  // ---------------------------------------------------------------- queries
  void check_queries(int s, const std::vector<Entry>& V, uint64_t seed, int npts, int nranks, bool invalid) {
    const Sk& q = sk[s];
    const std::vector<T>& S = model[s];
    const uint64_t n = S.size();
    if (n == 0) return;
    const bool exact = !q.is_estimation_mode();
    if (exact) exact_queries = true; else est_queries = true;
    const std::string ctx = std::string(fam_name(F)) + "<" + IO::name() + "> slot " + std::to_string(s) + " k=" + std::to_string(q.get_k()) + " n=" + std::to_string(n) + (exact ? " exact: " : " estimating: ");
    vf::Rng r(vf::mix64(seed ^ 0x9E5));
    const T mn = S.front(), mx = S.back();
    // query points: extremes, stream members, retained items, neighbours by index, arbitrary raw values
    std::vector<T> P;
    P.push_back(mn); P.push_back(mx);
    for (int i = 0; i < npts; ++i) {
      T x = IO::nan();
      switch (r.below(5)) {
        case 0: x = S[r.below(n)]; break;
        case 1: x = V[r.below(V.size())].item; break;
        case 2: x = IO::from_index(static_cast<int64_t>(r.below(1u << 21))); break;
        case 3: x = IO::from_index(static_cast<int64_t>(r.below(8192))); break;
        default: x = IO::from_raw(r.below(3) == 0 ? r.below(12) : r.next()); break;
      }
      if (!IO::is_nan(x)) P.push_back(x);
    }
    std::sort(P.begin(), P.end(), comp);
    P.erase(std::unique(P.begin(), P.end(), [&](const T& a, const T& b) { return equiv(a, b); }), P.end());
    // ranks
    std::vector<double> RI(P.size()), RE(P.size());
    for (size_t i = 0; i < P.size(); ++i) {
      const double ri = q.get_rank(P[i], true), re = q.get_rank(P[i], false);
      RI[i] = ri; RE[i] = re;
      VF_CHECK(ri >= 0.0 && ri <= 1.0 && re >= 0.0 && re <= 1.0, "rank-range", ctx << "rank of " << show(P[i]) << " outside [0,1]: " << ri << " / " << re);
      VF_CHECK(ri >= re, "rank-incl-excl", ctx << "inclusive rank " << ri << " < exclusive rank " << re << " at " << show(P[i]));
      if (i > 0) {
        VF_CHECK(ri >= RI[i - 1], "rank-monotone", ctx << "inclusive rank decreases: " << show(P[i - 1]) << " -> " << RI[i - 1] << ", " << show(P[i]) << " -> " << ri);
        VF_CHECK(re >= RE[i - 1], "rank-monotone", ctx << "exclusive rank decreases: " << show(P[i - 1]) << " -> " << RE[i - 1] << ", " << show(P[i]) << " -> " << re);
        VF_CHECK(re >= RI[i - 1], "rank-monotone", ctx << "exclusive rank of " << show(P[i]) << " = " << re << " below inclusive rank of the smaller " << show(P[i - 1]) << " = " << RI[i - 1]);
      }
      // the same weight recomputed from the sorted view entries (exact integer sums, same final division)
      uint64_t wle = 0, wlt = 0;
      for (const Entry& e : V) { if (!comp(P[i], e.item)) wle += e.w; if (comp(e.item, P[i])) wlt += e.w; }
      VF_CHECK(ri == static_cast<double>(wle) / static_cast<double>(n), "rank-vs-view", ctx << "inclusive rank of " << show(P[i]) << " = " << ri << " but retained weight <= item is " << wle << " of " << n);
      VF_CHECK(re == static_cast<double>(wlt) / static_cast<double>(n), "rank-vs-view", ctx << "exclusive rank of " << show(P[i]) << " = " << re << " but retained weight < item is " << wlt << " of " << n);
      if (exact) {
        VF_CHECK(ri == static_cast<double>(count_le(S, P[i])) / static_cast<double>(n), "exact-rank", ctx << "inclusive rank of " << show(P[i]) << " = " << ri << " true " << count_le(S, P[i]) << "/" << n);
        VF_CHECK(re == static_cast<double>(count_lt(S, P[i])) / static_cast<double>(n), "exact-rank", ctx << "exclusive rank of " << show(P[i]) << " = " << re << " true " << count_lt(S, P[i]) << "/" << n);
      }
    }
    VF_CHECK(q.get_rank(mx, true) == 1.0, "rank-of-max", ctx << "inclusive rank of the maximum is " << q.get_rank(mx, true));
    VF_CHECK(q.get_rank(mn, false) == 0.0, "rank-of-min", ctx << "exclusive rank of the minimum is " << q.get_rank(mn, false));
    // quantiles
    std::vector<double> R;
    R.push_back(0.0); R.push_back(1.0);
    for (int i = 0; i < nranks; ++i) {
      switch (r.below(4)) {
        case 0: R.push_back(r.unit()); break;
        case 1: R.push_back(static_cast<double>(r.below(n + 1)) / static_cast<double>(n)); break;           // on the grid j/n
        case 2: R.push_back((static_cast<double>(r.below(n)) + 0.5) / static_cast<double>(n)); break;     // between grid points
        default: R.push_back(r.below(2) ? r.unit() * 0.01 : 1.0 - r.unit() * 0.01); break;                // tails
      }
    }
    std::sort(R.begin(), R.end());
    const double tol = 1e-12;
    for (int incl = 0; incl <= 1; ++incl) {
      bool have_prev = false; T prev = mn;
      for (double rk : R) {
        const T qv = q.get_quantile(rk, incl != 0);
        VF_CHECK(!comp(qv, mn) && !comp(mx, qv), "quantile-range", ctx << "quantile(" << rk << "," << incl << ") = " << show(qv) << " outside [min,max] = [" << show(mn) << "," << show(mx) << "]");
        VF_CHECK(!have_prev || !comp(qv, prev), "quantile-monotone", ctx << "quantile decreases at rank " << rk << " (inclusive=" << incl << "): " << show(prev) << " -> " << show(qv));
        prev = qv; have_prev = true;
        // it is one of the retained items
        auto lo = std::lower_bound(V.begin(), V.end(), qv, [&](const Entry& e, const T& x) { return comp(e.item, x); });
        VF_CHECK(lo != V.end() && !comp(qv, lo->item), "quantile-retained", ctx << "quantile(" << rk << ") = " << show(qv) << " is not a retained item");
        // defining inequalities against get_rank
        const double ri = q.get_rank(qv, true), re = q.get_rank(qv, false);
        if (incl) {
          VF_CHECK(ri >= rk - tol, "quantile-def", ctx << "inclusive quantile(" << rk << ") = " << show(qv) << " has inclusive rank " << ri << " < rank asked");
          if (lo != V.begin()) {
            const T& below = (lo - 1)->item;  // largest retained item smaller than the answer
            const double rb = q.get_rank(below, true);
            VF_CHECK(rb < rk + tol, "quantile-def", ctx << "inclusive quantile(" << rk << ") = " << show(qv) << " but the smaller retained item " << show(below) << " already has inclusive rank " << rb);
          }
        } else {
          VF_CHECK(re <= rk + tol, "quantile-def", ctx << "exclusive quantile(" << rk << ") = " << show(qv) << " has exclusive rank " << re << " > rank asked");
          VF_CHECK(rk >= 1.0 - tol || ri > rk - tol, "quantile-def", ctx << "exclusive quantile(" << rk << ") = " << show(qv) << " has inclusive rank " << ri << " <= rank asked");
        }
        if (exact) {
          // true answer of the multiset: inclusive S[ceil(r n) - 1], exclusive S[floor(r n)] (clamped); a relative band of
          // 1e-12 on r*n keeps the oracle independent of the rounding of that product
          const double x = rk * static_cast<double>(n), slack = 1e-12 * std::max(1.0, x);
          uint64_t ilo, ihi;
          if (incl) {
            const double a = std::ceil(x - slack), b = std::ceil(x + slack);
            ilo = a < 1.0 ? 0 : static_cast<uint64_t>(a) - 1; ihi = b < 1.0 ? 0 : static_cast<uint64_t>(b) - 1;
          } else {
            const double a = std::floor(x - slack), b = std::floor(x + slack);
            ilo = a < 0.0 ? 0 : static_cast<uint64_t>(a); ihi = b < 0.0 ? 0 : static_cast<uint64_t>(b);
          }
          ilo = std::min(ilo, n - 1); ihi = std::min(ihi, n - 1);
          VF_CHECK(!comp(qv, S[ilo]) && !comp(S[ihi], qv), "exact-quantile", ctx << "quantile(" << rk << ", inclusive=" << incl << ") = " << show(qv) << " true value " << show(S[ilo]) << (ilo != ihi ? " .. " + show(S[ihi]) : std::string()));
        }
      }
    }
    // CDF / PMF over a generated subset of the query points (sorted, unique, no NaN by construction)
    std::vector<T> sp;
    {
      const uint64_t keep = 1 + r.below(4);
      for (const T& p : P) if (r.below(keep) == 0 && sp.size() < 12) sp.push_back(p);
    }
    for (int incl = 0; incl <= 1; ++incl) {
      const auto cdf = q.get_CDF(sp.data(), static_cast<uint32_t>(sp.size()), incl != 0);
      const auto pmf = q.get_PMF(sp.data(), static_cast<uint32_t>(sp.size()), incl != 0);
      VF_CHECK(cdf.size() == sp.size() + 1 && pmf.size() == sp.size() + 1, "cdf-size", ctx << "CDF/PMF sizes " << cdf.size() << "/" << pmf.size() << " for " << sp.size() << " split points");
      double sum = 0;
      for (size_t i = 0; i < sp.size(); ++i)
        VF_CHECK(cdf[i] == q.get_rank(sp[i], incl != 0), "cdf-rank", ctx << "CDF[" << i << "] = " << cdf[i] << " rank of split point " << show(sp[i]) << " = " << q.get_rank(sp[i], incl != 0));
      VF_CHECK(cdf.back() == 1.0, "cdf-last", ctx << "last CDF value " << cdf.back());
      for (size_t i = 0; i < pmf.size(); ++i) {
        const double expect = i == 0 ? cdf[0] : cdf[i] - cdf[i - 1];
        VF_CHECK(pmf[i] == expect, "pmf-diff", ctx << "PMF[" << i << "] = " << pmf[i] << " CDF difference " << expect);
        VF_CHECK(pmf[i] >= 0.0, "pmf-negative", ctx << "PMF[" << i << "] = " << pmf[i]);
        sum += pmf[i];
      }
      VF_CHECK(std::fabs(sum - 1.0) <= 1e-9, "pmf-sum", ctx << "PMF sums to " << sum);
    }
    if (!invalid) return;
    // documented refusals
    const double bad[] = {-1e-9, -1.0, 1.0000001, 2.0, -std::numeric_limits<double>::infinity(), std::numeric_limits<double>::infinity()};
    for (double b : bad)
      for (int incl = 0; incl <= 1; ++incl)
        VF_CHECK(throws<std::invalid_argument>([&] { (void)q.get_quantile(b, incl != 0); }), "bad-rank-refused", ctx << "get_quantile(" << b << ") did not throw invalid_argument");
    if (P.size() >= 2) {
      const size_t i = r.below(P.size() - 1);
      std::vector<T> rev{P[i + 1], P[i]}, dup{P[i], P[i]}, tail{P[0], P[i + 1], P[i]};
      for (int incl = 0; incl <= 1; ++incl) {
        VF_CHECK(throws<std::invalid_argument>([&] { (void)q.get_CDF(rev.data(), 2, incl != 0); }), "bad-splits-refused", ctx << "get_CDF accepted decreasing split points");
        VF_CHECK(throws<std::invalid_argument>([&] { (void)q.get_PMF(rev.data(), 2, incl != 0); }), "bad-splits-refused", ctx << "get_PMF accepted decreasing split points");
        VF_CHECK(throws<std::invalid_argument>([&] { (void)q.get_CDF(dup.data(), 2, incl != 0); }), "bad-splits-refused", ctx << "get_CDF accepted duplicate split points");
        VF_CHECK(throws<std::invalid_argument>([&] { (void)q.get_PMF(dup.data(), 2, incl != 0); }), "bad-splits-refused", ctx << "get_PMF accepted duplicate split points");
        if (i > 0) VF_CHECK(throws<std::invalid_argument>([&] { (void)q.get_CDF(tail.data(), 3, incl != 0); }), "bad-splits-refused", ctx << "get_CDF accepted split points unsorted at the end");
      }
    }
    if (IO::floating) {
      std::vector<T> n1{IO::nan()}, n2{P[0], IO::nan()}, n3{IO::nan(), P[0]};
      for (int incl = 0; incl <= 1; ++incl) {
        VF_CHECK(throws<std::invalid_argument>([&] { (void)q.get_CDF(n1.data(), 1, incl != 0); }), "nan-split-refused", ctx << "get_CDF accepted a NaN split point");
        VF_CHECK(throws<std::invalid_argument>([&] { (void)q.get_PMF(n1.data(), 1, incl != 0); }), "nan-split-refused", ctx << "get_PMF accepted a NaN split point");
        VF_CHECK(throws<std::invalid_argument>([&] { (void)q.get_CDF(n2.data(), 2, incl != 0); }), "nan-split-refused", ctx << "get_CDF accepted a trailing NaN split point");
        VF_CHECK(throws<std::invalid_argument>([&] { (void)q.get_PMF(n3.data(), 2, incl != 0); }), "nan-split-refused", ctx << "get_PMF accepted a leading NaN split point");
      }
    }
  }

  void check(int s, const char* after, uint64_t seed, int npts, int nranks, bool invalid) {
    std::vector<Entry> V;
    check_structure(s, after, V);
    check_queries(s, V, seed, npts, nranks, invalid);
  }

  // a freshly constructed sketch reports the k it was constructed with (all generated k are in the documented domain)
  void check_config(int s) {
    ++c07_nchecks;
    if (sk[s].get_k() != kreq[s]) {
      const std::string msg = std::string(fam_name(F)) + " sketch constructed with k=" + std::to_string(kreq[s]) + " reports get_k() = " + std::to_string(sk[s].get_k());
      if (F == F_REQ && kreq[s] >= 256) defer("config-k", "C07|req|constructor|k>=256-truncated-to-8-bits", msg);
      else vf::fail("config-k", msg);
    }
  }
  void recreate(int s) {
    sk[s] = SkOf<F, T, C>::make(kreq[s], hra[s], comp);
    model[s].clear();
    check_config(s);
  }

  // ---------------------------------------------------------------- the history
  void run(const Case& cs, bool check_every_op) {
    const uint64_t seed = cs.get("seed", 1);
    vf::own_randomness(seed);
    const bool hra0 = cs.get("hra", 1) & 1;
    const bool ksame = cs.get("ksame", 0) & 1;
    for (int s = 0; s < NS; ++s) {
      const uint64_t sel = static_cast<uint64_t>(cs.get(ksame ? "k0" : "k" + std::to_string(s), 0));
      kreq.push_back(k_from(F, sel));
      hra.push_back(F == F_REQ && s == NS - 1 && (cs.get("mixhra", 1) & 3) == 0 ? !hra0 : hra0);  // sometimes one sketch of the other mode
      sk.push_back(SkOf<F, T, C>::make(kreq[s], hra[s], comp));
      model.emplace_back();
    }
    for (int s = 0; s < NS; ++s) { check_config(s); check(s, "construction", seed + s, 0, 0, false); }
    uint64_t opno = 0;
    for (const Op& op : cs.ops) {
      ++opno;
      const uint64_t oseed = vf::mix64(seed * 31 + opno);
      const int a = static_cast<int>(op.uarg(0) % NS);
      int touched2 = -1;
      if (op.name == "bulk") {
        const uint64_t n = op.uarg(1) % 200001;
        if (model[a].size() + n > MAX_MODEL) continue;
        feed(a, pattern(n, static_cast<int>(op.uarg(2) & 7), op.uarg(3)), (op.uarg(3) & 1) != 0);
      } else if (op.name == "upd") {
        std::vector<T> one{IO::from_raw(op.uarg(1))};
        feed(a, one, op.uarg(2) & 1);
      } else if (op.name == "merge") {
        const int b = static_cast<int>(op.uarg(1) % NS);
        const int mode = static_cast<int>(op.uarg(2) % 3);
        if (a == b || model[a].size() + model[b].size() > MAX_MODEL) continue;
        if (F == F_REQ && hra[a] != hra[b]) {
          // documented refusal, nothing may change
          VF_CHECK(throws<std::invalid_argument>([&] { sk[a].merge(static_cast<const Sk&>(sk[b])); }), "hra-lra-merge-refused", "REQ merge of HRA and LRA sketches did not throw invalid_argument");
          hra_refused = true;
          touched2 = b;
        } else {
          const bool est = sk[a].is_estimation_mode() || sk[b].is_estimation_mode();
          if (est) merged_est = true; else if (!model[a].empty() && !model[b].empty()) merged_exact = true;
          if (sk[a].get_k() != sk[b].get_k() && !model[b].empty()) merged_unequal_k = true;
          if (model[b].empty()) merged_empty_src = true; else if (model[a].empty()) merged_into_empty = true;
          std::vector<T> add(model[b]);
          if (mode == 0) { sk[a].merge(static_cast<const Sk&>(sk[b])); touched2 = b; }
          else if (mode == 1) { sk[a].merge(sk[b]); touched2 = b; }
          else { sk[a].merge(std::move(sk[b])); recreate(b); merged_rvalue = true; touched2 = b; }
          std::vector<T> out;
          out.reserve(model[a].size() + add.size());
          std::merge(model[a].begin(), model[a].end(), add.begin(), add.end(), std::back_inserter(out), comp);
          model[a].swap(out);
        }
      } else if (op.name == "copy") {
        const int b = static_cast<int>(op.uarg(1) % NS);
        const int mode = static_cast<int>(op.uarg(2) % 3);
        if (a == b) continue;
        kreq[a] = kreq[b]; hra[a] = hra[b]; model[a] = model[b]; touched2 = b;
        if (mode == 0) { Sk tmp(sk[b]); sk[a] = std::move(tmp); }       // copy construction
        else if (mode == 1) { sk[a] = sk[b]; }                           // copy assignment
        else { sk[a] = std::move(sk[b]); recreate(b); }                  // move assignment; the source slot starts over
        copied = true;
      } else if (op.name == "reset") {
        kreq[a] = k_from(F, op.uarg(1));
        if (F == F_REQ && (op.uarg(2) & 7) == 0) hra[a] = !hra[a];
        recreate(a);
      } else if (op.name == "query") {
        std::vector<Entry> V;
        check_structure(a, "query", V);
        check_queries(a, V, op.uarg(1), 24, 24, true);
        continue;
      } else continue;
      if (check_every_op) {
        check(a, op.name.c_str(), oseed, 5, 5, false);
        if (touched2 >= 0) check(touched2, "being the other operand", oseed + 1, 2, 2, false);
      }
    }
    for (int s = 0; s < NS; ++s) check(s, "end", vf::mix64(seed + 77 + s), 12, 12, true);
    // coverage
    vf::label(std::string("fam:") + fam_name(F));
    vf::label(std::string("type:") + IO::name());
    vf::label(std::string("comparator:") + CompInstance<C>::name());
    if (F == F_REQ) vf::label(hra0 ? "req-hra" : "req-lra");
    if (merged_est) vf::label("merge-estimating");
    if (merged_exact) vf::label("merge-exact-exact");
    if (merged_unequal_k) vf::label("merge-unequal-k");
    if (merged_rvalue) vf::label("merge-rvalue");
    if (merged_empty_src) vf::label("merge-empty-source");
    if (merged_into_empty) vf::label("merge-into-empty");
    if (hra_refused) vf::label("req-hra-lra-refused");
    if (nan_ignored) vf::label("nan-ignored");
    if (exact_queries) vf::label("queries-exact");
    if (est_queries) vf::label("queries-estimating");
    if (l0_empty) vf::label("kll-level0-empty");
    if (deep) vf::label("weights>=16");
    if (dup_heavy) vf::label("duplicates");
    if (copied) vf::label("copy");
    if (max_n >= 10000) vf::label("n>=10000");
    if (merged_est) vf::nontrivial();
    // keyed findings last: the whole history was checked before the case is failed / excluded
    // (one that is not listed as an open known finding goes first, so a listed one can never hide it)
    for (const Deferred& d : deferred) if (!vf::known_keys().count(d.key)) vf::fail(d.id, d.msg, d.key);
    if (!deferred.empty()) vf::fail(deferred[0].id, deferred[0].msg, deferred[0].key);
  }
};

template <int F> void dispatch_type(const Case& cs, bool every) {
  switch (cs.get("type", 0) % 5) {
    case 4: { Runner<F, int64_t, DirCmp> r; r.run(cs, every); break; }
    case 0: { Runner<F, float, std::less<float>> r; r.run(cs, every); break; }
    case 1: { Runner<F, double, std::greater<double>> r; r.run(cs, every); break; }
    case 2: { Runner<F, int64_t, std::less<int64_t>> r; r.run(cs, every); break; }
    default: { Runner<F, std::string, LenLex> r; r.run(cs, every); break; }
  }
}
void dispatch(const Case& cs, bool every) {
  switch (((cs.get("fam", 0) % 3) + 3) % 3) {
    case F_KLL: dispatch_type<F_KLL>(cs, every); break;
    case F_REQ: dispatch_type<F_REQ>(cs, every); break;
    default: dispatch_type<F_CLS>(cs, every); break;
  }
}
void prop_main(const Case& cs) { ChecksFlush f; dispatch(cs, true); }
void prop_large(const Case& cs) { ChecksFlush f; dispatch(cs, false); }

// A NaN rank is not a rank in [0,1]: get_quantile must refuse it like any other rank outside the interval. Kept in its
// own sub-property, run last and by worker 0 only: on the pinned tree the query is not refused and converts NaN to an
// integer (undefined behaviour, UBSan stops the process), which would otherwise end the worker's whole search.
template <typename Sk> void nan_rank_one(Sk sk, const Case& cs) {
  vf::Rng r(static_cast<uint64_t>(cs.get("seed", 1)));
  const uint64_t n = 1 + static_cast<uint64_t>(cs.get("n", 1)) % 500;
  for (uint64_t i = 0; i < n; ++i) sk.update(static_cast<float>(r.below(1000)));
  const double nan = std::numeric_limits<double>::quiet_NaN();
  for (int incl = 0; incl <= 1; ++incl) {
    bool refused = false, answered = false;
    try { (void)sk.get_quantile(nan, incl != 0); answered = true; } catch (const std::invalid_argument&) { refused = true; }
    VF_CHECK_K(refused && !answered, "nan-rank-refused", "C07|all|get_quantile|NaN-rank-answered", "get_quantile(NaN, inclusive=" << incl << ") was answered instead of throwing invalid_argument");
  }
}
void prop_nanrank(const Case& cs) {
  if (!vf::ctx().stats_path.empty()) vf::dump_stats(vf::ctx().stats_path, "running");  // the process may be stopped by UBSan below
  vf::own_randomness(static_cast<uint64_t>(cs.get("seed", 1)));
  const int fam = static_cast<int>(((cs.get("fam", 0) % 3) + 3) % 3);
  const uint16_t k = k_from(fam, static_cast<uint64_t>(cs.get("k0", 0)));
  vf::label(std::string("fam:") + fam_name(fam));
  if (fam == F_KLL) nan_rank_one(kll_sketch<float>(k), cs);
  else if (fam == F_REQ) nan_rank_one(req_sketch<float>(k, cs.get("hra", 1) & 1), cs);
  else nan_rank_one(quantiles_sketch<float>(k), cs);
}
rc::Gen<Case> gen_nanrank() {
  using namespace vf;
  return make_case({{"fam", range(0, 2)}, {"seed", range(1, 1 << 30)}, {"hra", range(0, 1)}, {"k0", range(0, 15)}, {"n", range(0, 499)}}, rc::gen::just(std::vector<Op>{}));
}


// ------------------------------------------------------------------ very long streams through the merge tree
// n far beyond 2^32 cannot be fed item by item, but merging a sketch with a copy of itself doubles n: d self-merges of an m-item
// sketch represent the stream in which every one of the m items occurs 2^d times (n = m * 2^d, up to about 2^45). The exact
// multiset is known in closed form, so conservation (n, extremes, weights summing to n, view total) and the coherence of
// the answers (rank monotone, inclusive >= exclusive, rank == weight recomputed from the view, rank(max) = 1, CDF/PMF) are
// checked exactly as for short streams, in 64-bit (128-bit for the sums).
template <typename Sk> void huge_one(Sk sk, const Case& cs, const char* fam) {
  vf::Rng r(static_cast<uint64_t>(cs.get("seed", 1)) * 77 + 5);
  // "bigk": the largest legal k of the family, with a stream that just crosses the first flush / compaction of the lowest buffer
  const bool bigk = (cs.get("bigk", 0) & 1) != 0;
  const uint64_t k0 = sk.get_k();
  const uint64_t m = !bigk ? 1 + static_cast<uint64_t>(cs.get("m", 1)) % 3000
                           : (fam[0] == 'c' ? 2 * k0 : fam[0] == 'k' ? k0 : 6 * k0) - 4 + static_cast<uint64_t>(cs.get("m", 1)) % 6000;
  const int d = static_cast<int>(cs.get("d", 0) % (bigk ? 3 : 36));
  const int via = static_cast<int>(cs.get("via", 0) % 3);
  std::vector<int64_t> base;
  for (uint64_t i = 0; i < m; ++i) { const int64_t v = static_cast<int64_t>(r.below(2 * m + 1)) - static_cast<int64_t>(m); base.push_back(v); sk.update(v); }
  std::sort(base.begin(), base.end());
  for (int j = 0; j < d; ++j) {
    Sk copy(sk);
    if (via == 0) sk.merge(static_cast<const Sk&>(copy));
    else if (via == 1) sk.merge(std::move(copy));
    else { copy.merge(static_cast<const Sk&>(sk)); sk = std::move(copy); }
  }
  const uint64_t n = m << d;
  std::ostringstream c; c << fam << " k=" << sk.get_k() << " m=" << m << " self-merged " << d << " times (n = " << n << "): ";
  const std::string ctx = c.str();
  VF_CHECK(sk.get_n() == n, "n", ctx << "get_n " << sk.get_n());
  VF_CHECK(!sk.is_empty() && sk.get_min_item() == base.front() && sk.get_max_item() == base.back(), "min-max", ctx << "min " << sk.get_min_item() << " max " << sk.get_max_item() << " expected " << base.front() << " " << base.back());
  const uint64_t retained = sk.get_num_retained();
  // iteration
  unsigned __int128 sumw = 0; uint64_t cnt = 0;
  for (auto it = sk.begin(); it != sk.end(); ++it) {
    const auto e = *it; ++cnt;
    VF_CHECK(cnt <= retained, "iter-count", ctx << "iteration yields more than num_retained = " << retained);
    VF_CHECK(e.second != 0 && (e.second & (e.second - 1)) == 0, "iter-weight-pow2", ctx << "weight " << e.second << " is not a power of two");
    VF_CHECK(std::binary_search(base.begin(), base.end(), e.first), "retained-not-in-stream", ctx << "retained item " << e.first << " was never accepted");
    sumw += e.second;
  }
  VF_CHECK(cnt == retained, "iter-count", ctx << "iteration yields " << cnt << " entries, num_retained " << retained);
  VF_CHECK(sumw == n, "iter-weight-sum", ctx << "weights sum to " << static_cast<uint64_t>(sumw) << (sumw >> 64 ? " (+2^64..)" : ""));
  // sorted view
  auto view = sk.get_sorted_view();
  std::vector<std::pair<int64_t, uint64_t>> V;  // (item, cumulative weight)
  uint64_t prev = 0;
  for (auto it = view.begin(); it != view.end(); ++it) {
    const auto e = *it;
    VF_CHECK(V.size() < retained, "view-size", ctx << "sorted view iterates more than " << retained << " entries");
    VF_CHECK(e.second > prev, "view-cumulative", ctx << "cumulative weight not increasing at entry " << V.size() << ": " << prev << " -> " << e.second);
    VF_CHECK(V.empty() || V.back().first <= e.first, "view-order", ctx << "sorted view out of order at " << V.size());
    V.emplace_back(e.first, e.second); prev = e.second;
  }
  VF_CHECK(V.size() == retained, "view-size", ctx << "sorted view has " << V.size() << " entries, num_retained " << retained);
  VF_CHECK(prev == n, "view-total", ctx << "sorted view total weight " << prev);
  // ranks at generated points (stream items, their neighbours, the extremes)
  std::vector<int64_t> pts{base.front() - 1, base.front(), base.back(), base.back() + 1};
  for (int i = 0; i < 40; ++i) pts.push_back(base[r.below(m)] + static_cast<int64_t>(r.below(3)) - 1);
  std::sort(pts.begin(), pts.end()); pts.erase(std::unique(pts.begin(), pts.end()), pts.end());
  double pe = -1, pi = -1;
  for (int64_t x : pts) {
    const double re = sk.get_rank(x, false), ri = sk.get_rank(x, true);
    VF_CHECK(re >= 0 && ri <= 1 && re <= ri, "rank-range", ctx << "rank(" << x << ") exclusive " << re << " inclusive " << ri);
    VF_CHECK(re >= pe && ri >= pi, "rank-monotone", ctx << "rank decreases at " << x << ": exclusive " << pe << " -> " << re << ", inclusive " << pi << " -> " << ri);
    pe = re; pi = ri;
    uint64_t we = 0, wi = 0;
    for (const auto& e : V) { if (e.first < x) we = e.second; if (e.first <= x) wi = e.second; else break; }
    VF_CHECK(std::fabs(re - static_cast<double>(we) / static_cast<double>(n)) <= 1e-12 && std::fabs(ri - static_cast<double>(wi) / static_cast<double>(n)) <= 1e-12, "rank-vs-view",
             ctx << "rank(" << x << ") exclusive " << re << " inclusive " << ri << ", weight below / up to it in the sorted view " << we << " / " << wi);
  }
  VF_CHECK(sk.get_rank(base.back(), true) == 1.0 && sk.get_rank(base.front(), false) == 0.0, "rank-extremes", ctx << "inclusive rank of max " << sk.get_rank(base.back(), true) << ", exclusive rank of min " << sk.get_rank(base.front(), false));
  // quantiles
  int64_t pq = base.front();
  for (int i = 0; i <= 20; ++i) {
    const double rk = i / 20.0;
    for (int incl = 0; incl <= 1; ++incl) {
      const int64_t q = sk.get_quantile(rk, incl != 0);
      VF_CHECK(q >= base.front() && q <= base.back(), "quantile-range", ctx << "quantile(" << rk << ") = " << q << " outside [min, max]");
      if (incl == 1) { VF_CHECK(q >= pq, "quantile-monotone", ctx << "quantile decreases at rank " << rk << ": " << pq << " -> " << q); pq = q; }
    }
  }
  // CDF / PMF
  std::vector<int64_t> sp(pts.begin() + 1, pts.end() - 1);
  if (!sp.empty()) for (int incl = 0; incl <= 1; ++incl) {
    const auto cdf = sk.get_CDF(sp.data(), static_cast<uint32_t>(sp.size()), incl != 0);
    const auto pmf = sk.get_PMF(sp.data(), static_cast<uint32_t>(sp.size()), incl != 0);
    VF_CHECK(cdf.size() == sp.size() + 1 && pmf.size() == sp.size() + 1 && cdf.back() == 1.0, "cdf-shape", ctx << "CDF size " << cdf.size() << " last " << cdf.back());
    double tot = 0;
    for (size_t i = 0; i < sp.size(); ++i) VF_CHECK(cdf[i] == sk.get_rank(sp[i], incl != 0), "cdf-vs-rank", ctx << "CDF[" << i << "] " << cdf[i] << " rank " << sk.get_rank(sp[i], incl != 0));
    for (size_t i = 0; i < pmf.size(); ++i) { tot += pmf[i]; VF_CHECK(pmf[i] >= 0 && std::fabs(pmf[i] - (cdf[i] - (i ? cdf[i - 1] : 0.0))) <= 1e-12, "pmf-vs-cdf", ctx << "PMF[" << i << "] " << pmf[i]); }
    VF_CHECK(std::fabs(tot - 1.0) <= 1e-9, "pmf-sum", ctx << "PMF sums to " << tot);
  }
  vf::label(std::string("fam:") + fam);
  vf::label(n >= (1ull << 40) ? "n>=2^40" : n >= (1ull << 32) ? "n>=2^32" : n >= (1ull << 24) ? "n>=2^24" : "n<2^24");
  if (n >= (1ull << 32) || bigk) vf::nontrivial();
}
void prop_huge(const Case& cs) {
  ChecksFlush f;
  vf::own_randomness(static_cast<uint64_t>(cs.get("seed", 1)));
  const int fam = static_cast<int>(((cs.get("fam", 0) % 3) + 3) % 3);
  const bool bigk = (cs.get("bigk", 0) & 1) != 0;
  const uint16_t k = bigk ? (fam == F_KLL ? 65535 : fam == F_REQ ? 1024 : 32768) : k_from(fam, static_cast<uint64_t>(cs.get("k0", 0)));
  if (bigk) vf::label("huge_n:largest-legal-k");
  if (fam == F_KLL) huge_one(kll_sketch<int64_t>(k), cs, "kll");
  else if (fam == F_REQ) huge_one(req_sketch<int64_t>(k, cs.get("hra", 1) & 1), cs, (cs.get("hra", 1) & 1) ? "req-hra" : "req-lra");
  else huge_one(quantiles_sketch<int64_t>(k), cs, "classic");
}
rc::Gen<Case> gen_huge() {
  using namespace vf;
  return make_case({{"fam", range(0, 2)}, {"seed", range(1, 1 << 30)}, {"hra", range(0, 1)}, {"k0", range(0, 15)}, {"m", range(0, 2999)},
                    {"d", rc::gen::weightedOneOf<int64_t>({{1, range(0, 15)}, {3, range(16, 35)}})}, {"via", range(0, 2)}, {"bigk", rc::gen::weightedOneOf<int64_t>({{12, rc::gen::just<int64_t>(0)}, {1, rc::gen::just<int64_t>(1)}})}}, rc::gen::just(std::vector<Op>{}));
}


// ------------------------------------------------------------------ type-converting construction
// Every family can be constructed from a sketch of another item type. The conversion here keeps the order (double -> float, all values exactly
// representable) while the sketch is still exact, so the converted sketch holds the same multiset and every answer is known. The source is
// queried or serialized first in two thirds of the cases (both sort its lowest buffer as a side effect). Conversions that CHANGE the order
// (std::less -> std::greater) are not generated: on the pinned tree KLL keeps its levels and all three families copy min / max unconverted,
// i.e. the library does not support them.
template <typename Src, typename Dst> void convert_one(Src src, const Case& cs, const char* fam, uint64_t cap) {
  vf::Rng r(static_cast<uint64_t>(cs.get("seed", 1)) * 131 + 7);
  const uint64_t n = 1 + static_cast<uint64_t>(cs.get("n", 0)) % cap;
  std::vector<float> vals;
  for (uint64_t i = 0; i < n; ++i) { const double v = static_cast<double>(r.below(2 * n + 3)) * 0.5; vals.push_back(static_cast<float>(v)); src.update(v); }
  const int touch = static_cast<int>(cs.get("touch", 0) % 3);
  if (touch == 1) (void)src.get_rank(static_cast<double>(vals[0]), true);
  else if (touch == 2) (void)src.serialize();
  VF_CHECK(!src.is_estimation_mode(), "convert-setup", fam << ": the source left exact mode with " << n << " items");
  Dst conv(src);
  std::ostringstream c; c << fam << " k=" << src.get_k() << " n=" << n << (touch == 1 ? " (source queried)" : touch == 2 ? " (source serialized)" : "") << " converted double -> float: ";
  const std::string ctx = c.str();
  VF_CHECK(conv.get_n() == n && conv.get_num_retained() == n && !conv.is_estimation_mode() && conv.get_k() == src.get_k(), "convert-n", ctx << "n " << conv.get_n() << " retained " << conv.get_num_retained() << " k " << conv.get_k());
  std::sort(vals.begin(), vals.end());
  VF_CHECK(conv.get_min_item() == vals.front() && conv.get_max_item() == vals.back(), "min-max", ctx << "min " << conv.get_min_item() << " max " << conv.get_max_item() << " expected " << vals.front() << " " << vals.back());
  auto view = conv.get_sorted_view();
  float prev = 0; bool first = true; uint64_t cum = 0;
  for (auto it = view.begin(); it != view.end(); ++it) { const float x = (*it).first; VF_CHECK(first || !(x < prev), "view-order", ctx << "sorted view out of order: " << prev << " then " << x); prev = x; first = false; cum = (*it).second; }
  VF_CHECK(cum == n, "view-total", ctx << "sorted view total weight " << cum);
  for (uint64_t i = 0; i < n; ++i) {
    const float x = vals[i];
    const uint64_t le = static_cast<uint64_t>(std::upper_bound(vals.begin(), vals.end(), x) - vals.begin());
    const uint64_t lt = static_cast<uint64_t>(std::lower_bound(vals.begin(), vals.end(), x) - vals.begin());
    VF_CHECK(std::fabs(conv.get_rank(x, true) - static_cast<double>(le) / n) <= 1e-12 && std::fabs(conv.get_rank(x, false) - static_cast<double>(lt) / n) <= 1e-12, "exact-rank",
             ctx << "rank(" << x << ") inclusive " << conv.get_rank(x, true) << " exclusive " << conv.get_rank(x, false) << ", true " << static_cast<double>(le) / n << " / " << static_cast<double>(lt) / n);
  }
  // the converted sketch goes on like any other
  conv.update(vals.back() + 1.0f);
  VF_CHECK(conv.get_n() == n + 1 && conv.get_max_item() == vals.back() + 1.0f, "convert-continue", ctx << "after one more update n " << conv.get_n() << " max " << conv.get_max_item());
  vf::label(std::string("convert:") + fam);
  vf::nontrivial();
}
void prop_convert(const Case& cs) {
  ChecksFlush f;
  vf::own_randomness(static_cast<uint64_t>(cs.get("seed", 1)));
  const int fam = static_cast<int>(((cs.get("fam", 0) % 3) + 3) % 3);
  const uint16_t k = k_from(fam, static_cast<uint64_t>(cs.get("k0", 0)));
  if (fam == F_KLL) convert_one<kll_sketch<double>, kll_sketch<float>>(kll_sketch<double>(k), cs, "kll", k);
  else if (fam == F_REQ) convert_one<req_sketch<double>, req_sketch<float>>(req_sketch<double>(k, cs.get("hra", 1) & 1), cs, "req", 2 * static_cast<uint64_t>(k));
  else convert_one<quantiles_sketch<double>, quantiles_sketch<float>>(quantiles_sketch<double>(k), cs, "classic", 2 * static_cast<uint64_t>(k) - 1);
}
rc::Gen<Case> gen_convert() {
  using namespace vf;
  return make_case({{"fam", range(0, 2)}, {"seed", range(1, 1 << 30)}, {"hra", range(0, 1)}, {"k0", range(0, 15)}, {"n", range(0, 4000)}, {"touch", pick({0, 1, 2})}}, rc::gen::just(std::vector<Op>{}));
}

// ------------------------------------------------------------------ generators
rc::Gen<int64_t> ksel_small() { return rc::gen::weightedOneOf<int64_t>({{6, vf::range(0, 5)}, {3, vf::range(6, 11)}, {1, vf::range(12, 15)}}); }

std::vector<std::pair<std::string, rc::Gen<int64_t>>> cfg_gens(rc::Gen<int64_t> ksel) {
  using namespace vf;
  return {{"fam", range(0, 2)}, {"type", range(0, 4)}, {"seed", range(1, 1 << 30)}, {"hra", range(0, 1)}, {"mixhra", range(0, 3)}, {"ksame", range(0, 1)},
          {"k0", ksel}, {"k1", ksel}, {"k2", ksel}, {"k3", ksel}};
}

// op list whose length scales with the rapidcheck size and which shrinks by REMOVING ops (vf::oplist keeps the count
// fixed while shrinking, which leaves long tails of no-op lines in the shrunk histories of this harness)
rc::Gen<std::vector<Op>> ops_removable(std::function<rc::Gen<Op>(int)> opg, int lo, double per) {
  return rc::gen::withSize([=](int size) {
    const int maxn = lo + static_cast<int>(size * per);
    return rc::gen::resize(maxn, rc::gen::container<std::vector<Op>>(opg(size)));
  });
}

rc::Gen<Case> gen_main() {
  using namespace vf;
  auto opg = [](int size) {
    auto slot = range(0, NS - 1);
    return choose({
        {5, op4("bulk", slot, range(0, 30 + 20 * size), range(0, 7), range(0, 1 << 20))},
        {2, op4("bulk", slot, range(0, 40), range(0, 7), range(0, 1 << 20))},
        {2, op4("bulk", slot, range(1, 6), range(0, 7), range(0, 1 << 20))},
        {3, op3("upd", slot, raw_gen(), range(0, 1))},
        {7, op3("merge", slot, slot, range(0, 2))},
        {1, op3("copy", slot, slot, range(0, 2))},
        {2, op2("query", slot, range(0, 1 << 20))},
        {1, op3("reset", slot, range(0, 15), range(0, 7))},
    });
  };
  return make_case(cfg_gens(ksel_small()), ops_removable(opg, 4, 0.5));
}

// long streams, default-size k as well; state is checked at the end only
rc::Gen<Case> gen_large() {
  using namespace vf;
  auto opg = [](int) {
    auto slot = range(0, NS - 1);
    return choose({
        {5, op4("bulk", slot, range(2000, 60000), range(0, 7), range(0, 1 << 20))},
        {3, op3("merge", slot, slot, range(0, 2))},
        {1, op2("query", slot, range(0, 1 << 20))},
        {1, op3("upd", slot, raw_gen(), range(0, 1))},
    });
  };
  return make_case(cfg_gens(range(0, 15)), ops_removable(opg, 2, 0.08));
}

}  // namespace

// Memory: the checker allocates and frees many small vectors / strings per step. ASan parks freed chunks in a quarantine
// of 256 MB *requested* bytes by default, which with redzones and size-class rounding grew a worker to ~1.8 GB RSS after
// ~1000 cases. 32 MB still holds every chunk freed within a case (use-after-free inside a history is still caught) and
// keeps a worker small. The second contributor is ASan's stack depot (one entry per distinct allocation / free stack; the
// recursive rapidcheck generators produce ever new 30-frame stacks): 8 frames bound it. Measured: a worker of the thorough
// tier (~14 000 histories) stays below ~0.8 GB. Options in the ASAN_OPTIONS environment set by the engine still apply.
extern "C" const char* __asan_default_options() { return "quarantine_size_mb=32:malloc_context_size=8"; }

int main(int argc, char** argv) {
  std::vector<vf::Sub> subs;
  subs.push_back({"main", gen_main, prop_main, 1.0});
  subs.push_back({"large", gen_large, prop_large, 0.04, 100});
  subs.push_back({"huge_n", gen_huge, prop_huge, 0.05, 100});
  subs.push_back({"convert", gen_convert, prop_convert, 0.03, 100});
  if (vf::env("VF_WORKER", "0") == "0" || argc >= 3) subs.push_back({"nanrank", gen_nanrank, prop_nanrank, 0.004, 100});
  return vf::main_driver(argc, argv, "C07", "c07_quantiles",
                         "case = family (KLL / REQ HRA|LRA / classic) x item type and comparator (float less, double greater, int64 less, string "
                         "length-then-lexicographic) x k per slot (equal or unequal) x op history over 4 live sketches (pattern chunks, edge-value "
                         "updates incl. NaN, merges const-lvalue/lvalue/rvalue, copies, re-creation, query batches); every touched sketch is compared "
                         "with the exact multiset model after every op; sub huge_n = an m-item sketch merged with a copy of itself up to 35 times "
                         "(n up to ~2^46, the multiset known in closed form); non-trivial = at least one merge whose receiver or source was in "
                         "estimation mode (huge_n: n >= 2^32); distinct = distinct case text",
                         subs);
}
