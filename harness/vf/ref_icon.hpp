// Independent reference for the CPC ICON estimator: the cardinality N at which the expected number of collected coupons of the
// k x 64 matrix equals C, E[C](N) = k * sum_j (1 - (1 - p_j / k)^N) with p_j = 2^-(j+1) (the last column takes the tail), inverted
// by bisection. The library evaluates a fitted polynomial / an exponential approximation; measured on the pinned tree over lg_k 4..26 and
// C/k in [0.01, 8] the two differ by at most 0.51 + 1.1e-6 * N (tools note in DESIGN.md), the tolerance below leaves a factor ~1.5-3.
#ifndef VF_REF_ICON_HPP
#define VF_REF_ICON_HPP
#include <cmath>
#include <cstdint>
namespace vf {
inline double icon_expected_coupons(int lg_k, double n) {
  const double k = std::ldexp(1.0, lg_k);
  double s = 0;
  for (int j = 0; j < 64; ++j) {
    const double p = j < 63 ? std::ldexp(1.0, -(j + 1)) : std::ldexp(1.0, -63);
    s += -std::expm1(n * std::log1p(-p / k));
  }
  return k * s;
}
inline double ref_icon(int lg_k, double c) {
  if (c <= 0) return 0;
  double lo = 0, hi = 1;
  while (icon_expected_coupons(lg_k, hi) < c) hi *= 2;
  for (int i = 0; i < 90; ++i) { const double mid = 0.5 * (lo + hi); if (icon_expected_coupons(lg_k, mid) < c) lo = mid; else hi = mid; }
  return 0.5 * (lo + hi);
}
inline double ref_icon_tolerance(double n) { return 0.75 + 3e-6 * n; }
}  // namespace vf
#endif
