// C06 (part b) — accuracy of the distinct-count estimates, statistical (weak evidence, stated tolerances).
// One case = (family, configuration, cardinality n, union?) evaluated over T independent trials on disjoint key ranges
// (independent hashes). Asserted with slack + 5 sigma sampling allowance:
//   |mean relative error|  <=  0.15*RSE + 5*RSE/sqrt(T)                      (negligible bias)
//   sample std of rel err  <=  1.15*RSE*(1 + 5/sqrt(2T))                     (spread within the published RSE)
//   coverage of the s-sigma interval >= nominal(s) - 0.015 - 5*sqrt(nominal(1-nominal)/T)
// RSE is the figure the library publishes for the configuration (see rse_of()).
#include "vf/core.hpp"
#include <theta_sketch.hpp>
#include <theta_union.hpp>
#include <tuple_sketch.hpp>
#include <hll.hpp>
#include <cpc_sketch.hpp>
#include <cpc_union.hpp>

using namespace datasketches;
using vf::Case; using vf::Op;

namespace {

struct Trial { double est, lb[3], ub[3]; double paired = 0; };

const int LGKS_THETA[] = {5, 8, 12};
const int LGKS_HLL[] = {4, 8, 13};
const int LGKS_CPC[] = {4, 8, 11};

void prop(const Case& cs) {
  int fam = static_cast<int>(cs.get("fam", 0) % 4);   // 0 theta 1 tuple 2 hll 3 cpc
  int lsel = static_cast<int>(cs.get("lgk", 0) % 3);
  int nsel = static_cast<int>(cs.get("n", 0) % 4);
  int psel = static_cast<int>(cs.get("p", 0) % 2);
  bool uni = cs.get("union", 0) & 1;
  int tsel = static_cast<int>(cs.get("type", 0) % 3);
  uint64_t base = (vf::mix64(static_cast<uint64_t>(cs.get("base", 1))) >> 16) << 8;
  long T = vf::env_long("VF_TRIALS", 150);
  int lg_k = fam <= 1 ? LGKS_THETA[lsel] : fam == 2 ? LGKS_HLL[lsel] : LGKS_CPC[lsel];
  uint64_t k = 1ull << lg_k;
  static const double mult[] = {0.5, 2, 16, 128};
  uint64_t n = static_cast<uint64_t>(mult[nsel] * k);
  if (lg_k >= 11 && nsel == 3) n = (lg_k >= 13 ? 20 : 32) * k;  // keep the largest configurations affordable
  float p = (fam <= 1 && psel == 1 && nsel >= 1) ? 0.5f : 1.0f;
  // unions of differently configured inputs: mix 1 = the second input has a smaller lg_k, mix 2 = the first one; the result has the
  // accuracy of the smaller configuration (the union itself is built with the larger lg_k)
  const int mix = uni ? static_cast<int>(static_cast<uint64_t>(cs.get("mix", 0)) % 3) : 0;
  const int lg_small = std::max(fam == 0 ? 5 : 4, lg_k - 2);
  const int lg_a = mix == 2 ? lg_small : lg_k, lg_c = mix == 1 ? lg_small : lg_k;
  if (mix) k = 1ull << lg_small;
  double rse;
  bool estimating;
  if (fam <= 1) { rse = 1.0 / std::sqrt(static_cast<double>(k - 1)); estimating = n > k || p < 1.0f; }
  else if (fam == 2) { const uint8_t lg_eff = static_cast<uint8_t>(mix ? lg_small : lg_k); rse = std::max(std::fabs(hll_sketch::get_rel_err(true, uni, lg_eff, 1)), std::fabs(hll_sketch::get_rel_err(false, uni, lg_eff, 1))); estimating = true; }
  else { rse = (uni ? 0.6931 : 0.5887) / std::sqrt(static_cast<double>(k)); estimating = true; }
  double truth = static_cast<double>(n);   // distinct items of a trial (changed by configurations that do not use the whole range)
  std::vector<Trial> trials;
  for (long t = 0; t < T; ++t) {
    uint64_t b = base + static_cast<uint64_t>(t) * (2 * n + 16);
    Trial tr{};
    if (fam == 0) {
      auto a = update_theta_sketch::builder().set_lg_k(static_cast<uint8_t>(lg_k)).set_p(p).build();
      if (!uni) { for (uint64_t i = 0; i < n; ++i) a.update(b + i); tr.est = a.get_estimate(); for (int s = 0; s < 3; ++s) { tr.lb[s] = a.get_lower_bound(s + 1); tr.ub[s] = a.get_upper_bound(s + 1); } }
      else {
        if (mix == 2) a = update_theta_sketch::builder().set_lg_k(static_cast<uint8_t>(lg_a)).set_p(p).build();
        auto c = update_theta_sketch::builder().set_lg_k(static_cast<uint8_t>(lg_c)).set_p(p).build();
        for (uint64_t i = 0; i < n; ++i) { if (i < 2 * n / 3) a.update(b + i); if (i >= n / 3) c.update(b + i); }
        auto u = theta_union::builder().set_lg_k(static_cast<uint8_t>(lg_k)).build(); u.update(a); u.update(c);
        auto r = u.get_result(); tr.est = r.get_estimate(); for (int s = 0; s < 3; ++s) { tr.lb[s] = r.get_lower_bound(s + 1); tr.ub[s] = r.get_upper_bound(s + 1); }
      }
    } else if (fam == 1) {
      auto a = update_tuple_sketch<double>::builder().set_lg_k(static_cast<uint8_t>(lg_k)).set_p(p).build();
      for (uint64_t i = 0; i < n; ++i) a.update(b + i, 1.0);
      tr.est = a.get_estimate(); for (int s = 0; s < 3; ++s) { tr.lb[s] = a.get_lower_bound(s + 1); tr.ub[s] = a.get_upper_bound(s + 1); }
    } else if (fam == 2) {
      target_hll_type ty = static_cast<target_hll_type>(tsel);
      if (!uni) { hll_sketch a(static_cast<uint8_t>(lg_k), ty); for (uint64_t i = 0; i < n; ++i) a.update(b + i); tr.est = a.get_estimate(); for (int s = 0; s < 3; ++s) { tr.lb[s] = a.get_lower_bound(s + 1); tr.ub[s] = a.get_upper_bound(s + 1); } }
      else {
        hll_sketch a(static_cast<uint8_t>(lg_a), ty), c(static_cast<uint8_t>(lg_c), ty);
        for (uint64_t i = 0; i < n; ++i) { if (i < 2 * n / 3) a.update(b + i); if (i >= n / 3) c.update(b + i); }
        hll_union u(static_cast<uint8_t>(lg_k)); u.update(a); u.update(c);
        tr.est = u.get_estimate(); for (int s = 0; s < 3; ++s) { tr.lb[s] = u.get_lower_bound(s + 1); tr.ub[s] = u.get_upper_bound(s + 1); }
        // paired control: one in-order sketch of the same stream (its estimate is the HIP estimator, the union's the composite one)
        hll_sketch whole(static_cast<uint8_t>(lg_k), ty); for (uint64_t i = 0; i < n; ++i) whole.update(b + i);
        tr.paired = whole.get_estimate();
      }
    } else {
      if (!uni) { cpc_sketch a(static_cast<uint8_t>(lg_k)); for (uint64_t i = 0; i < n; ++i) a.update(b + i); tr.est = a.get_estimate(); for (int s = 0; s < 3; ++s) { tr.lb[s] = a.get_lower_bound(s + 1); tr.ub[s] = a.get_upper_bound(s + 1); } }
      else {
        cpc_sketch a(static_cast<uint8_t>(lg_a)), c(static_cast<uint8_t>(lg_c));
        if (!mix) { for (uint64_t i = 0; i < n; ++i) { if (i < 2 * n / 3) a.update(b + i); if (i >= n / 3) c.update(b + i); } }
        else {
          // the input with the smaller lg_k stays in sparse flavor (fewer than 3K/32 coupons) and overlaps with the other one
          const uint64_t m = std::min<uint64_t>(2 * n / 3, (3ull << lg_small) / 32 - 2);
          cpc_sketch& big = mix == 1 ? a : c; cpc_sketch& small = mix == 1 ? c : a;
          for (uint64_t i = 0; i < 2 * n / 3; ++i) big.update(b + i);
          for (uint64_t i = 0; i < m; ++i) small.update(b + n / 3 + i);
          truth = static_cast<double>(std::max<uint64_t>(2 * n / 3, n / 3 + m));
        }
        cpc_union u(static_cast<uint8_t>(lg_k)); u.update(a); u.update(c);
        cpc_sketch r = u.get_result(); tr.est = r.get_estimate(); for (int s = 0; s < 3; ++s) { tr.lb[s] = r.get_lower_bound(s + 1); tr.ub[s] = r.get_upper_bound(s + 1); }
      }
    }
    trials.push_back(tr);
  }
  double dn = truth;
  double mean = 0; for (auto& t : trials) mean += t.est / dn - 1.0; mean /= T;
  double var = 0; for (auto& t : trials) { double r = t.est / dn - 1.0 - mean; var += r * r; } var /= std::max<long>(1, T - 1);
  double sd = std::sqrt(var);
  static const char* names[] = {"theta", "tuple", "hll", "cpc"};
  std::ostringstream who; who << names[fam] << (uni ? " union" : "") << " lg_k=" << lg_k << " n=" << n << " p=" << p << " T=" << T;
  if (!estimating) {
    for (auto& t : trials) VF_CHECK(t.est == dn, "exact-mode", who.str() << ": exact-mode estimate " << t.est);
  } else {
    VF_CHECK(std::fabs(mean) <= 0.15 * rse + 5.0 * rse / std::sqrt(static_cast<double>(T)), "bias", who.str() << ": mean relative error " << mean << " vs published RSE " << rse);
    VF_CHECK(sd <= 1.15 * rse * (1.0 + 5.0 / std::sqrt(2.0 * T)), "spread", who.str() << ": std of relative error " << sd << " exceeds published RSE " << rse);
    if (fam == 2 && uni) {
      // Both the union's estimate and the single sketch's estimate of the same stream have negligible bias, so their difference has
      // too; the two are strongly correlated (same registers), which makes this far sharper than the comparison with n above.
      // Slack 0.04*RSE: calibrated over lg_k {4,8,13} x n {k/2,2k,16k,20..128k} with 3000 trials, largest |mean difference| 0.018*RSE (sampling noise 0.055*RSE).
      double md = 0; for (auto& t : trials) md += (t.est - t.paired) / dn; md /= T;
      double vd = 0; for (auto& t : trials) { double r = (t.est - t.paired) / dn - md; vd += r * r; } vd /= std::max<long>(1, T - 1);
      double sdd = std::sqrt(vd);
      if (!vf::env("C06_CALIB").empty()) fprintf(stderr, "CALIB paired lg_k=%d n=%llu T=%ld md/rse=%.4f sdd/rse=%.4f\n", lg_k, static_cast<unsigned long long>(n), T, md / rse, sdd / rse);
      VF_CHECK(std::fabs(md) <= 0.04 * rse + 5.0 * sdd / std::sqrt(static_cast<double>(T)), "paired-bias", who.str() << ": union estimate minus single-sketch estimate of the same stream averages " << md << " of n (std " << sdd << "), published RSE " << rse);
      vf::label("hll-union-paired");
    }
    static const double nominal[] = {0.6827, 0.9545, 0.9973};
    for (int s = 0; s < 3; ++s) {
      long in = 0; for (auto& t : trials) in += (t.lb[s] <= dn && dn <= t.ub[s]);
      double cov = static_cast<double>(in) / T;
      double need = nominal[s] - 0.015 - 5.0 * std::sqrt(nominal[s] * (1 - nominal[s]) / T);
      VF_CHECK(cov >= need, "coverage", who.str() << ": " << (s + 1) << "-sigma interval covers the truth in " << cov << " of trials, need " << need);
    }
    vf::nontrivial();
  }
  vf::count("trials", static_cast<uint64_t>(T));
  vf::label(std::string("family:") + names[fam] + (uni ? "-union" : ""));
  if (mix) vf::label("union-of-different-lg_k");
  vf::label(std::string("n=") + (nsel == 0 ? "k/2" : nsel == 1 ? "2k" : nsel == 2 ? "16k" : "128k"));
}

rc::Gen<Case> gen() {
  using namespace vf;
  return make_case({{"fam", range(0, 3)}, {"lgk", rc::gen::weightedOneOf<int64_t>({{4, range(0, 0)}, {4, range(1, 1)}, {1, range(2, 2)}})},
                    {"n", rc::gen::weightedOneOf<int64_t>({{2, range(0, 1)}, {2, range(2, 2)}, {1, range(3, 3)}})},
                    {"p", range(0, 1)}, {"union", range(0, 1)}, {"type", range(0, 2)}, {"base", range(1, 1 << 30)}, {"mix", pick({0, 0, 1, 2})}},
                   rc::gen::just(std::vector<Op>{}));
}

// Deep registers: HLL inputs with n / k = 2^13 (register values around 14..20, beyond 4 bits and beyond 15) united into a result of
// lg_k 4, where at least one input has a larger lg_k than the result and is folded down. Same assertions as above, against the
// RSE the library publishes for lg_k 4; the paired control is one lg_k 4 sketch of the whole stream.
void prop_deep(const Case& cs) {
  const target_hll_type ty = static_cast<target_hll_type>(cs.get("type", 0) % 3);
  const bool a_first = cs.get("order", 0) & 1;
  const int shape = static_cast<int>(cs.get("shape", 0) % 3);   // 0: a lg5, c lg4, union 5   1: a lg5, c lg5, union 4   2: a lg5, c lg4, union 4
  const int lg_a = 5, lg_c = shape == 1 ? 5 : 4, lg_u = shape == 0 ? 5 : 4;
  const uint64_t base = (vf::mix64(static_cast<uint64_t>(cs.get("base", 1)) + 77) >> 16) << 8;
  const long T = vf::env_long("VF_TRIALS", 150);
  const uint64_t n = 1ull << 18;
  const double rse = std::max(std::fabs(hll_sketch::get_rel_err(true, true, 4, 1)), std::fabs(hll_sketch::get_rel_err(false, true, 4, 1)));
  std::vector<Trial> trials;
  for (long t = 0; t < T; ++t) {
    Trial tr;
    const uint64_t b = base + static_cast<uint64_t>(t) * (n + 17);
    hll_sketch a(static_cast<uint8_t>(lg_a), ty), c(static_cast<uint8_t>(lg_c), ty), whole(4, ty);
    for (uint64_t i = 0; i < n; ++i) { if (i < 2 * n / 3) a.update(b + i); if (i >= n / 3) c.update(b + i); whole.update(b + i); }
    hll_union u(static_cast<uint8_t>(lg_u));
    if (a_first) { u.update(a); u.update(c); } else { u.update(c); u.update(a); }
    tr.est = u.get_estimate(); for (int s = 0; s < 3; ++s) { tr.lb[s] = u.get_lower_bound(s + 1); tr.ub[s] = u.get_upper_bound(s + 1); }
    VF_CHECK(u.get_lg_config_k() == 4, "deep-result-lg-k", "union of lg_k " << lg_a << " and " << lg_c << " inputs with lg_max_k " << lg_u << " works at lg_k " << int(u.get_lg_config_k()));
    tr.paired = whole.get_estimate();
    trials.push_back(tr);
  }
  const double dn = static_cast<double>(n);
  double mean = 0; for (auto& t : trials) mean += t.est / dn - 1.0; mean /= T;
  double var = 0; for (auto& t : trials) { double r = t.est / dn - 1.0 - mean; var += r * r; } var /= std::max<long>(1, T - 1);
  const double sd = std::sqrt(var);
  std::ostringstream who; who << "hll deep union type=" << int(ty) << " shape=" << shape << " a_first=" << a_first << " n=" << n << " T=" << T;
  VF_CHECK(std::fabs(mean) <= 0.15 * rse + 5.0 * rse / std::sqrt(static_cast<double>(T)), "bias", who.str() << ": mean relative error " << mean << " vs published RSE " << rse);
  VF_CHECK(sd <= 1.15 * rse * (1.0 + 5.0 / std::sqrt(2.0 * T)), "spread", who.str() << ": std of relative error " << sd << " exceeds published RSE " << rse);
  double md = 0; for (auto& t : trials) md += (t.est - t.paired) / dn; md /= T;
  double vd = 0; for (auto& t : trials) { double r = (t.est - t.paired) / dn - md; vd += r * r; } vd /= std::max<long>(1, T - 1);
  const double sdd = std::sqrt(vd);
  if (!vf::env("C06_CALIB").empty()) fprintf(stderr, "CALIB deep type=%d shape=%d T=%ld mean/rse=%.4f sd/rse=%.4f md/rse=%.4f sdd/rse=%.4f\n", int(ty), shape, T, mean / rse, sd / rse, md / rse, sdd / rse);
  VF_CHECK(std::fabs(md) <= 0.04 * rse + 5.0 * sdd / std::sqrt(static_cast<double>(T)), "paired-bias", who.str() << ": union estimate minus single-sketch estimate of the same stream averages " << md << " of n (std " << sdd << "), published RSE " << rse);
  static const double nominal[] = {0.6827, 0.9545, 0.9973};
  for (int s = 0; s < 3; ++s) {
    long in = 0; for (auto& t : trials) in += (t.lb[s] <= dn && dn <= t.ub[s]);
    const double cov = static_cast<double>(in) / T;
    const double need = nominal[s] - 0.015 - 5.0 * std::sqrt(nominal[s] * (1 - nominal[s]) / T);
    VF_CHECK(cov >= need, "coverage", who.str() << ": " << (s + 1) << "-sigma interval covers the truth in " << cov << " of trials, need " << need);
  }
  vf::nontrivial();
  vf::count("trials", static_cast<uint64_t>(T));
  vf::label("family:hll-union-deep-registers");
}

rc::Gen<Case> gen_deep() {
  using namespace vf;
  return make_case({{"type", range(0, 2)}, {"order", range(0, 1)}, {"shape", range(0, 2)}, {"base", range(1, 1 << 30)}}, rc::gen::just(std::vector<Op>{}));
}

// Coupon (SET) mode at large lg_k: the sketch still holds individual coupons (up to 3/32 k of them) and estimates through the coupon
// interpolation table, with intervals of a few 1e-5 relative width - far narrower than the HLL-mode RSE of the configured size. The
// published interval is the yardstick: coverage as above, and |mean relative error| <= 0.25 of the mean 1-sigma half-width + 5 sigma.
void prop_coupon(const Case& cs) {
  // configurations whose 1-sigma half-width is at least 3 items (n >= 65 000): below that the interval is about one item wide and its
  // coverage is decided by the discreteness of the collision count, not by the estimator (calibration: lg_k 19, n = 22 118 covers 0.55-0.60)
  static const struct { int lg_k; double frac; } CFG[] = {{20, 0.70}, {20, 0.85}, {20, 0.97}, {21, 0.35}, {21, 0.50}, {21, 0.65}, {21, 0.82}, {21, 0.97}};
  const auto& cf = CFG[static_cast<uint64_t>(cs.get("sel", 0)) % 8];
  const int lg_k = cf.lg_k;
  const uint64_t n = static_cast<uint64_t>(cf.frac * 3.0 * std::ldexp(1.0, lg_k) / 32.0);
  const target_hll_type ty = static_cast<target_hll_type>(cs.get("type", 0) % 3);
  const uint64_t base = (vf::mix64(static_cast<uint64_t>(cs.get("base", 1)) + 1234567) >> 16) << 8;
  const long T = std::max<long>(50, vf::env_long("VF_TRIALS", 150) / 2);
  const double dn = static_cast<double>(n);
  std::vector<Trial> trials;
  double half = 0;
  for (long t = 0; t < T; ++t) {
    Trial tr;
    const uint64_t b = base + static_cast<uint64_t>(t) * (n + 17);
    hll_sketch a(static_cast<uint8_t>(lg_k), ty);
    for (uint64_t i = 0; i < n; ++i) a.update(b + i);
    const auto img = a.serialize_compact();
    VF_CHECK((img[7] & 3) == 1, "coupon-still-set-mode", "lg_k " << lg_k << " n " << n << ": the sketch left SET mode (mode bits " << (img[7] & 3) << ")");
    tr.est = a.get_estimate();
    for (int s = 0; s < 3; ++s) { tr.lb[s] = a.get_lower_bound(s + 1); tr.ub[s] = a.get_upper_bound(s + 1); VF_CHECK(tr.lb[s] <= tr.est && tr.est <= tr.ub[s], "sketch-bounds-order", "lg_k " << lg_k << " n " << n << ": lb " << tr.lb[s] << " est " << tr.est << " ub " << tr.ub[s]); }
    half += (tr.ub[0] - tr.lb[0]) / (2 * dn);
    trials.push_back(tr);
  }
  half /= T;
  double mean = 0; for (auto& t : trials) mean += t.est / dn - 1.0; mean /= T;
  double var = 0; for (auto& t : trials) { double r = t.est / dn - 1.0 - mean; var += r * r; } var /= std::max<long>(1, T - 1);
  const double sd = std::sqrt(var);
  std::ostringstream who; who << "hll coupon mode lg_k=" << lg_k << " n=" << n << " type=" << int(ty) << " T=" << T;
  if (!vf::env("C06_CALIB").empty()) fprintf(stderr, "CALIB coupon lg_k=%d n=%llu T=%ld mean/half=%.4f sd/half=%.4f half=%.3e\n", lg_k, static_cast<unsigned long long>(n), T, mean / half, sd / half, half);
  VF_CHECK(std::fabs(mean) <= 0.25 * half + 5.0 * sd / std::sqrt(static_cast<double>(T)), "bias", who.str() << ": mean relative error " << mean << " (std " << sd << ") vs the published 1-sigma half-width " << half);
  VF_CHECK(sd <= 1.25 * half * (1.0 + 5.0 / std::sqrt(2.0 * T)), "spread", who.str() << ": std of relative error " << sd << " exceeds the published 1-sigma half-width " << half);
  static const double nominal[] = {0.6827, 0.9545, 0.9973};
  for (int s = 0; s < 3; ++s) {
    long in = 0; for (auto& t : trials) in += (t.lb[s] - 1.0 <= dn && dn <= t.ub[s] + 1.0);   // one item of slack: the truth is an integer, the interval a few items wide
    const double cov = static_cast<double>(in) / T;
    const double need = nominal[s] - 0.015 - 5.0 * std::sqrt(nominal[s] * (1 - nominal[s]) / T);
    if (!vf::env("C06_CALIB").empty()) fprintf(stderr, "CALIB coupon-cov lg_k=%d n=%llu s=%d cov=%.4f need=%.4f\n", lg_k, static_cast<unsigned long long>(n), s + 1, cov, need);
    VF_CHECK(cov >= need, "coverage", who.str() << ": " << (s + 1) << "-sigma interval (+- 1 item) covers the truth in " << cov << " of trials, need " << need);
  }
  vf::nontrivial();
  vf::count("trials", static_cast<uint64_t>(T));
  vf::label("family:hll-coupon-mode-large-lg_k");
}
rc::Gen<Case> gen_coupon() {
  using namespace vf;
  return make_case({{"sel", pick({0, 1, 2, 3, 4, 5, 6, 7})}, {"type", pick({0, 1, 2})}, {"base", range(1, 1 << 30)}}, rc::gen::just(std::vector<Op>{}));
}

// Tails of the CPC intervals at tiny lg_k: the 2- and 3-sigma bounds come from separate low-side / high-side tables whose entries differ by
// 25-50 % at lg_k 4..6, so a bound built from the wrong side is off by a third of its width - visible only in the tail frequencies. Cheap
// sketches allow 100 x the usual number of trials, which resolves the 3-sigma tail (nominal 0.27 %) with the tighter stated tolerances below.
void prop_tails(const Case& cs) {
  const int lg_k = 4 + static_cast<int>(cs.get("lgk", 0) % 2);
  const uint64_t k = 1ull << lg_k;
  const uint64_t n = (cs.get("nsel", 0) & 1) ? 100 * k : 30 * k;
  const bool uni = cs.get("union", 0) & 1;
  const uint64_t base = (vf::mix64(static_cast<uint64_t>(cs.get("base", 1)) + 987654321) >> 16) << 8;
  const long T = vf::env_long("VF_TRIALS", 150) * 100;
  const double dn = static_cast<double>(n);
  long in[3] = {0, 0, 0}, below[3] = {0, 0, 0}, above[3] = {0, 0, 0};
  for (long t = 0; t < T; ++t) {
    const uint64_t b = base + static_cast<uint64_t>(t) * (n + 17);
    double lb[3], ub[3], est;
    if (!uni) {
      cpc_sketch a(static_cast<uint8_t>(lg_k));
      for (uint64_t i = 0; i < n; ++i) a.update(b + i);
      est = a.get_estimate(); for (int s = 0; s < 3; ++s) { lb[s] = a.get_lower_bound(s + 1); ub[s] = a.get_upper_bound(s + 1); }
    } else {
      cpc_sketch a(static_cast<uint8_t>(lg_k)), c(static_cast<uint8_t>(lg_k));
      for (uint64_t i = 0; i < n; ++i) { if (i < 2 * n / 3) a.update(b + i); if (i >= n / 3) c.update(b + i); }
      cpc_union u(static_cast<uint8_t>(lg_k)); u.update(a); u.update(c);
      cpc_sketch r = u.get_result();
      est = r.get_estimate(); for (int s = 0; s < 3; ++s) { lb[s] = r.get_lower_bound(s + 1); ub[s] = r.get_upper_bound(s + 1); }
    }
    for (int s = 0; s < 3; ++s) {
      VF_CHECK(lb[s] <= est && est <= ub[s], "sketch-bounds-order", "cpc lg_k " << lg_k << " n " << n << ": lb " << lb[s] << " est " << est << " ub " << ub[s]);
      if (dn < lb[s]) ++below[s]; else if (dn > ub[s]) ++above[s]; else ++in[s];
    }
  }
  std::ostringstream who; who << "cpc" << (uni ? " union" : "") << " lg_k=" << lg_k << " n=" << n << " T=" << T;
  static const double nominal[] = {0.6827, 0.9545, 0.9973};
  static const double tol[] = {0.015, 0.010, 0.004};
  for (int s = 0; s < 3; ++s) {
    const double cov = static_cast<double>(in[s]) / T;
    const double need = nominal[s] - tol[s] - 5.0 * std::sqrt(nominal[s] * (1 - nominal[s]) / T);
    if (!vf::env("C06_CALIB").empty()) fprintf(stderr, "CALIB tails lg_k=%d n=%llu uni=%d s=%d cov=%.4f need=%.4f below=%.4f above=%.4f\n", lg_k, static_cast<unsigned long long>(n), int(uni), s + 1, cov, need, double(below[s]) / T, double(above[s]) / T);
    VF_CHECK(cov >= need, "coverage", who.str() << ": " << (s + 1) << "-sigma interval covers the truth in " << cov << " of trials (truth below the lower bound " << double(below[s]) / T << ", above the upper bound " << double(above[s]) / T << "), need " << need);
  }
  vf::nontrivial();
  vf::count("trials", static_cast<uint64_t>(T));
  vf::label(uni ? "family:cpc-union-tails" : "family:cpc-tails");
}
rc::Gen<Case> gen_tails() {
  using namespace vf;
  return make_case({{"lgk", pick({0, 1})}, {"nsel", pick({0, 1})}, {"union", pick({0, 0, 1})}, {"base", range(1, 1 << 30)}}, rc::gen::just(std::vector<Op>{}));
}

// Deterministic part of the accuracy search: the configurations in which the composite estimator works beyond the end of its interpolation
// table with a small published RSE (lg_k 13, n = 16k and 20k, union results of every target type) are run in every check instead of
// being left to the generator (about one case in 700).
void enum_hll_large(std::function<bool(const Case&)> run) {
  long w = vf::env_long("VF_WORKER", 0), nw = std::max<long>(1, vf::env_long("VF_NWORKERS", 1));
  const uint64_t seed = static_cast<uint64_t>(vf::env_long("VF_SEED", 1));
  long idx = 0;
  for (int type = 0; type < 3; ++type) for (int nsel = 2; nsel <= 3; ++nsel) {
    if ((idx++ % nw) != w) continue;
    Case c; c.set("fam", 2); c.set("lgk", 2); c.set("n", nsel); c.set("p", 0); c.set("union", 1); c.set("type", type); c.set("mix", 0);
    c.set("base", static_cast<int64_t>(1 + (vf::mix64(seed * 31 + static_cast<uint64_t>(idx)) & 0x3fffffff)));
    if (!run(c)) return;
  }
}

}  // namespace

int main(int argc, char** argv) {
  vf::Sub hl; hl.name = "hll_union_beyond_table"; hl.prop = prop; hl.enumerate = enum_hll_large;
  return vf::main_driver(argc, argv, "C06", "c06_accuracy",
                         "accuracy (statistical, weak): case = (family Theta/Tuple/HLL/CPC, lg_k, n in {k/2,2k,16k,128k}, p, single sketch or union result, HLL type) "
                         "evaluated over T independent trials on disjoint key ranges; asserts bias <= 0.15 RSE + 5 RSE/sqrt(T), spread <= 1.15 RSE (1 + 5/sqrt(2T)), "
                         "coverage >= nominal - 1.5 points - 5 sigma; sub coupon = HLL sketches of lg_k 20..21 still in coupon mode (65 000 .. 190 000 items) against their own published interval; sub tails = CPC lg_k 4..5 with 100 x the trials and tolerances 1.5 / 1.0 / 0.4 points; sub deep = HLL unions of n = 2^18 streams folded down to lg_k 4 (register values beyond 15); "
                         "non-trivial = estimation mode; distinct = distinct case text",
                         {{"accuracy", gen, prop, 1.0}, {"deep", gen_deep, prop_deep, 0.05}, {"coupon", gen_coupon, prop_coupon, 0.03}, {"tails", gen_tails, prop_tails, 0.03}, hl});
}
