// vf/c19_fam_quantiles.hpp — C19 families: KLL, REQ, classic quantiles (item types: instrumented Probe, std::string).
#ifndef VF_C19_FAM_QUANTILES_HPP
#define VF_C19_FAM_QUANTILES_HPP
#include "c19_engine.hpp"
#include <kll_sketch.hpp>
#include <req_sketch.hpp>
#include <quantiles_sketch.hpp>
#include <sstream>

namespace vf19 {

// ---------------------------------------------------------------- item types shared by the item-generic families
template <typename T> struct ItemKit;
template <> struct ItemKit<Probe> {
  using Less = ProbeLess; using Hash = ProbeHash; using Equal = ProbeEqual; using Serde = ProbeSerde;
  static const char* name() { return "probe"; }
  static Probe make(uint64_t v) { return Probe(v); }
  static void show(std::ostream& os, const Probe& p) { os << p.value("observation of a retained item"); }
  static const bool tracks_bypass = true;
};
template <> struct ItemKit<std::string> {
  using Less = std::less<std::string>; using Hash = std::hash<std::string>; using Equal = std::equal_to<std::string>;
  using Serde = datasketches::serde<std::string>;
  static const char* name() { return "string"; }
  // long enough to live on the heap (ASan then sees double destruction / leaks of items)
  static std::string make(uint64_t v) { return "item-" + std::to_string(v) + std::string(12 + v % 23, static_cast<char>('a' + v % 26)); }
  static void show(std::ostream& os, const std::string& s) { os << s.size() << ':' << s.substr(0, 14); }
  static const bool tracks_bypass = false;
};

inline void show_bytes(std::ostream& os, const uint8_t* p, size_t n) {
  uint64_t h = 1469598103934665603ull;
  for (size_t i = 0; i < n; ++i) { h ^= p[i]; h *= 1099511628211ull; }
  os << "bytes=" << n << "#" << std::hex << h << std::dec;
}

// values of an update batch: a window of the value space chosen by the seed, with duplicates
inline uint64_t batch_value(vf::Rng& r, uint64_t seed) {
  uint64_t span = 8 + (seed % 5) * 200;
  return (seed % 7) * 100 + r.below(span);
}

// ---------------------------------------------------------------- generic quantile family
enum QKind { Q_KLL, Q_REQ, Q_CLS };
template <QKind K, typename T> struct QSk;
template <typename T> struct QSk<Q_KLL, T> {
  using A = track_alloc<T>;
  using type = datasketches::kll_sketch<T, typename ItemKit<T>::Less, A>;
  static const char* fam() { return "kll"; }
  static type* make(Env& e, uint64_t v, int reg) {
    static const uint16_t ks[8] = {8, 8, 9, 12, 16, 20, 32, 200};
    return construct<type>([&](void* m) { return new (m) type(ks[v & 7], typename ItemKit<T>::Less(), e.alloc<T>(reg)); });
  }
  static bool compatible(const type&, const type&) { return true; }
  static void extra(const type& sk, std::ostream& os) { os << " nre=" << sk.get_normalized_rank_error(false); }
};
template <typename T> struct QSk<Q_REQ, T> {
  using A = track_alloc<T>;
  using type = datasketches::req_sketch<T, typename ItemKit<T>::Less, A>;
  static const char* fam() { return "req"; }
  static type* make(Env& e, uint64_t v, int reg) {
    static const uint16_t ks[8] = {4, 4, 6, 8, 10, 12, 24, 50};
    // accuracy mode is a property of the case (cfg_a): HRA and LRA sketches cannot be merged
    return construct<type>([&](void* m) { return new (m) type(ks[v & 7], (e.cfg_a & 1) != 0, typename ItemKit<T>::Less(), e.alloc<T>(reg)); });
  }
  static bool compatible(const type& a, const type& b) { return a.is_HRA() == b.is_HRA(); }
  static void extra(const type& sk, std::ostream& os) { os << " hra=" << sk.is_HRA(); }
};
template <typename T> struct QSk<Q_CLS, T> {
  using A = track_alloc<T>;
  using type = datasketches::quantiles_sketch<T, typename ItemKit<T>::Less, A>;
  static const char* fam() { return "classic"; }
  static type* make(Env& e, uint64_t v, int reg) {
    static const uint16_t ks[8] = {2, 2, 4, 4, 8, 16, 32, 128};
    return construct<type>([&](void* m) { return new (m) type(ks[v & 7], typename ItemKit<T>::Less(), e.alloc<T>(reg)); });
  }
  static bool compatible(const type&, const type&) { return true; }
  static void extra(const type&, std::ostream&) {}
};

template <QKind K, typename T>
struct QuantFamily {
  using Kit = ItemKit<T>;
  using Q = QSk<K, T>;
  using Obj = typename Q::type;
  static const char* name() { static std::string n = std::string(Q::fam()) + "<" + Kit::name() + ">"; return n.c_str(); }
  static Obj* make(Env& e, uint64_t v, int reg) { return Q::make(e, v, reg); }
  static void update(Env&, Obj& sk, uint64_t seed, unsigned n) {
    vf::Rng r(seed);
    for (unsigned i = 0; i < n; ++i) {
      uint64_t v = batch_value(r, seed);
      if (i & 1) { T item = Kit::make(v); LibScope ls; sk.update(item); }           // lvalue: copied in
      else { T item = Kit::make(v); LibScope ls; sk.update(std::move(item)); }       // rvalue: moved in
    }
  }
  template <typename SrcT> static bool merge_ref(Env&, Obj& d, SrcT& s) {
    if (!Q::compatible(d, s)) return false;
    LibScope ls; d.merge(s); return true;
  }
  static bool merge_move(Env&, Obj& d, Obj&& s) {
    if (!Q::compatible(d, s)) return false;
    LibScope ls; d.merge(std::move(s)); return true;
  }
  static bool reset(Obj&) { return false; }
  static Obj* serde(Env& e, const Obj& sk, uint64_t mode, int reg) {
    typename Kit::Serde sd;
    if (mode & 1) {
      std::stringstream ss(std::ios::in | std::ios::out | std::ios::binary);
      { LibScope ls; sk.serialize(ss, sd); }
      return construct<Obj>([&](void* m) { return new (m) Obj(Obj::deserialize(ss, sd, typename Kit::Less(), e.alloc<T>(reg))); });
    }
    unsigned header = (mode & 2) ? 7 : 0;
    auto bytes = [&] { LibScope ls; return sk.serialize(header, sd); }();
    return construct<Obj>([&](void* m) { return new (m) Obj(Obj::deserialize(bytes.data() + header, bytes.size() - header, sd, typename Kit::Less(), e.alloc<T>(reg))); });
  }
  static void body(const Obj& sk, std::ostream& os, bool with_bytes) {
    // the sorted view first: it sorts level 0 / the base buffer as a documented side effect, iteration order is then stable
    auto view = [&] { LibScope ls; return sk.get_sorted_view(); }();
    os << "k=" << sk.get_k() << " n=" << sk.get_n() << " empty=" << sk.is_empty() << " retained=" << sk.get_num_retained()
       << " est=" << sk.is_estimation_mode();
    Q::extra(sk, os);
    if (!sk.is_empty()) {
      os << " min="; Kit::show(os, sk.get_min_item());
      os << " max="; Kit::show(os, sk.get_max_item());
    }
    if (!sk.is_empty()) {
      // queries answered from the sketch's own cached sorted view (get_sorted_view above builds a fresh one): the cache is part of
      // the object's state, it must follow every change of the sketch
      LibScope ls;
      os << " q:";
      for (double r : {0.0, 0.25, 0.5, 0.75, 1.0}) { os << ' '; Kit::show(os, sk.get_quantile(r)); }
      os << " r:" << sk.get_rank(sk.get_min_item()) << ',' << sk.get_rank(sk.get_max_item(), false);
    }
    os << "\nitems:";
    size_t cnt = 0;
    for (auto it = sk.begin(); it != sk.end() && cnt <= sk.get_num_retained(); ++it, ++cnt) { os << ' '; Kit::show(os, (*it).first); os << '*' << (*it).second; }
    os << "\nview:";
    for (auto it = view.begin(); it != view.end(); ++it) { os << ' '; Kit::show(os, (*it).first); os << '@' << (*it).second; }
    os << "\n";
    if (with_bytes) {
      typename Kit::Serde sd;
      auto bytes = [&] { LibScope ls; return sk.serialize(0, sd); }();
      show_bytes(os, bytes.data(), bytes.size());
      size_t declared = [&] { LibScope ls; return sk.get_serialized_size_bytes(sd); }();
      os << " declared=" << declared;
    }
  }
  static void observe(const Obj& sk, std::ostream& os) { body(sk, os, true); }
  static void canon(const Obj& sk, std::ostream& os) { body(sk, os, true); }
  static void query(Env& e, const Obj& sk, uint64_t seed) {
    // the type-converting copy constructor with an explicit allocator instance: equal to its source
    if (seed & 8) {
      std::ostringstream a, b;
      body(sk, a, true);
      {
        Obj conv = [&] { LibScope ls; return Obj(sk, typename Kit::Less(), e.alloc<T>(static_cast<int>(seed >> 4 & 1))); }();
        body(conv, b, true);
        LibScope ls;
        Obj moved(std::move(conv));
        (void)moved.get_n();
      }
      expect_same(b.str(), a.str(), "copy-equals-source", std::string(name()) + ": object built by the converting copy constructor (explicit allocator) differs from its source");
    }
    // the caching queries (a sorted view is built and kept inside the sketch) and the non-compliant to_string
    if (sk.is_empty()) { LibScope ls; { ToStringScope ts; (void)sk.to_string(false, false); } return; }
    vf::Rng r(seed);
    for (int i = 0; i < 3; ++i) {
      T probe = Kit::make(batch_value(r, seed));
      LibScope ls;
      (void)sk.get_rank(probe, (i & 1) != 0);
      (void)sk.get_quantile(r.unit(), true);
    }
    T sp[2] = {Kit::make(100), Kit::make(900)};
    LibScope ls;
    (void)sk.get_CDF(sp, 2);
    (void)sk.get_PMF(sp, 2);
    if (seed & 1) { ToStringScope ts; (void)sk.to_string((seed & 2) != 0, (seed & 4) != 0); }
  }
};

}  // namespace vf19
#endif
