#!/usr/bin/env python3
"""tools/record_fixes.py <property> <git range in /repo> — records every 'fix:' commit of the range as a fixed finding."""
import json, re, subprocess, sys
prop, rng = sys.argv[1], sys.argv[2]
log = subprocess.run(['git', '-C', '/repo', 'log', '--reverse', '--format=%h\t%s', rng], capture_output=True, text=True).stdout.splitlines()
p = '/verif/known_findings.json'
k = json.load(open(p))
have = {f.get('commit') for f in k['findings']}
n = 0
for line in log:
    h, s = line.split('\t', 1)
    if not s.startswith('fix:') or h in have:
        continue
    what = s[4:].strip()
    key = prop + '|' + re.sub(r'[^A-Za-z0-9_.()<>:-]+', '-', what)[:140]
    k['findings'].append({"property": prop, "key": key, "status": "fixed", "commit": h, "what": f"fixed: property={prop} {h} {what}"})
    n += 1
json.dump(k, open(p, 'w'), indent=1)
print('recorded', n)
