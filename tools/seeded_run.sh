#!/bin/bash
# tools/seeded_run.sh <seeded-dir> [tier] [ID...] — runs checks against a seeded defect (seeded/<name>/patch.diff) applied to a
# scratch copy of /repo (the real /repo is never touched, other jobs may be using it). Default: the property named in meta.json.
# Prints CAUGHT / MISSED per check and appends the result to <seeded-dir>/results.txt.
set -u
dir=$(realpath "$1"); tier=${2:-quick}; shift; shift 2>/dev/null
ids="$*"
if [ -z "$ids" ]; then ids=$(python3 -c "import json,sys; print(json.load(open('$dir/meta.json'))['property'])"); fi
d=/tmp/vf-seed-$$
mkdir -p $d
(cd /repo && tar cf - --exclude=_build --exclude=build --exclude=.git .) | (cd $d && tar xf -)
if ! (cd $d && patch -p1 -s < "$dir/patch.diff"); then echo "patch does not apply"; rm -rf $d; exit 9; fi
for id in $ids; do
  VERIF_REPO=$d VERIF_EVIDENCE_DIR=/tmp/vf-seed-ev-$$ VERIF_OUT_DIR=/tmp/vf-seed-out-$$ /verif/check $id $tier > /tmp/vf-seed-log-$$ 2>&1
  rc=$?
  chk=$(grep -m1 -o 'check=[^ ]*' /tmp/vf-seed-log-$$)
  line="$(basename $dir) [$id $tier] exit $rc $( [ $rc = 1 ] && echo CAUGHT || echo MISSED ) $chk"
  echo "$line"; echo "$(date -u +%FT%TZ) $line" >> "$dir/results.txt"
  grep -E "evaluations=|machinery" /tmp/vf-seed-log-$$ | cut -c1-200
done
rm -rf $d /tmp/vf-seed-ev-$$ /tmp/vf-seed-out-$$ /tmp/vf-seed-log-$$
